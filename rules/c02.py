"""C02 Server answers every request body with a well-formed reply and never raises."""
import ast
from vlib.model import AnalysisError, dump, kwarg, call_name
from vlib.cfg import cfg_of, node_calls
from vlib.flow import dominators, Explorer, states_at
from vlib import prov, q, shape, spec
from rules import common, c05
from rules.common import SRV, DISP

META = {
    "explanation": (
        "Decides: C02.1 no exception can leave _marshaled_dispatch for any JSON (or translated-object) request value: "
        "forward type-narrowing abstract interpretation (E4) of _marshaled_dispatch, _unmarshaled_dispatch, "
        "validate_request, get_version and _marshaled_single_dispatch with the parsed request bound to 'any value', "
        "every operation classified total or raising, exceptions routed to handlers by class; C02.2 every normal exit of "
        "_marshaled_dispatch returns \"\", the JSON text of the response or fault.response(), and do_POST emits "
        "headers+body exactly once on every path that did not already answer; C02.3 response dictionaries are built "
        "only by Payload.response/error (no dict with result/error/jsonrpc keys is assembled in the server module); "
        "C02.4 the envelope shape of Payload.response/error per version region equals spec table A.2 (2.0: jsonrpc,id + "
        "exactly one of result/error; 1.0: result,error,id with null on the unused member; error object code,message "
        "(+data iff not None); jsonrpc value str(float(version))); C02.5 every Fault site has an integer literal code "
        "and a string-typed message; C02.6 the default JSON backend is called with ASCII escaping on, which is what makes the byte "
        "conversion of the reply in do_POST / the CGI handler total (it runs outside any catch-all); C02.7 the call graph reachable "
        "from the serving entry points has no cycle except the structural recursion of jsonclass over sub-values (a batch entry "
        "is never re-dispatched as a batch), and every member appended to a batch reply is one response object: <fault>.dump() or "
        "a value produced per entry by _marshaled_single_dispatch / validate_request (never by a function that treats a list as a batch)."),
    "does_not_decide": "termination (recursion depth of nested payloads), behaviour of the JSON backend on exotic "
                       "text, the NaN/Infinity exclusion.",
    "rules": {"C02.1": "E4 type narrowing / may-raise abstract interpretation, interprocedural by summaries",
              "C02.2": "provenance of return values; event-count exploration of do_POST",
              "C02.3": "who-may-construct scan", "C02.4": "shape interpreter (E7) vs spec A.2",
              "C02.5": "literal folding at Fault sites", "C02.6": "call-site keyword scan in jsonlib",
              "C02.7": "strongly connected components of the serving call graph; provenance of the appended batch members"},
    "assumptions": ["truthiness, ==, str(), isinstance, type() and str.format are total on every value in the domain",
                    "Config.version is a number; logging calls do not raise",
                    "a bounded notification queue raising queue.Full after its timeout is outside the domain"],
}


def _cycles(edges):
    """strongly connected components with at least one edge inside (Tarjan, iterative enough for ~30 nodes)"""
    index, low, stack, on, out, counter = {}, {}, [], set(), [], [0]

    def sc(v):
        index[v] = low[v] = counter[0]
        counter[0] += 1
        stack.append(v)
        on.add(v)
        for w in sorted(edges.get(v, ())):
            if w not in index:
                sc(w)
                low[v] = min(low[v], low[w])
            elif w in on:
                low[v] = min(low[v], index[w])
        if low[v] == index[v]:
            comp = []
            while True:
                w = stack.pop()
                on.discard(w)
                comp.append(w)
                if w == v:
                    break
            if len(comp) > 1 or v in edges.get(v, ()):
                out.append(comp)
    for v in sorted(edges):
        if v not in index:
            sc(v)
    return out


def _only_logged(fn, sub):
    """the dictionary display / keyed store `sub` belongs to a value that is used by logging calls only"""
    from vlib.model import is_logging_call
    parents = {}
    for p_ in ast.walk(fn):
        for c_ in ast.iter_child_nodes(p_):
            parents[id(c_)] = p_

    def inside_logging(x):
        while x is not None:
            if isinstance(x, ast.Call) and is_logging_call(x):
                return True
            x = parents.get(id(x))
        return False
    if inside_logging(sub):
        return True
    name = None
    par = parents.get(id(sub))
    if isinstance(sub, ast.Dict) and isinstance(par, ast.Assign) and len(par.targets) == 1 and isinstance(par.targets[0], ast.Name):
        name = par.targets[0].id
    elif isinstance(sub, ast.Subscript) and isinstance(sub.value, ast.Name):
        name = sub.value.id
    if name is None:
        return False
    loads = [n for n in ast.walk(fn) if isinstance(n, ast.Name) and n.id == name and isinstance(n.ctx, ast.Load)]
    uses = [n for n in loads if not (isinstance(parents.get(id(n)), ast.Subscript) and isinstance(parents[id(n)].ctx, ast.Store))]
    return bool(uses) and all(inside_logging(n) for n in uses)


def _options_table(prog, fi, e, depth=0):
    """the dict display an options expression denotes: a display, dict(<display>), a name bound once (in the function or an enclosing
    one) to such, self.<ATTR> bound once in the class body to a display; None if it cannot be established"""
    if depth > 4:
        return None
    if isinstance(e, ast.Dict):
        return e if all(isinstance(k, ast.Constant) and isinstance(k.value, str) for k in e.keys) else None
    if isinstance(e, ast.Call) and isinstance(e.func, ast.Name) and e.func.id == "dict" and len(e.args) == 1 and not e.keywords:
        return _options_table(prog, fi, e.args[0], depth + 1)
    if isinstance(e, ast.Name):
        f = fi
        while f is not None:
            binds = [st for st in ast.walk(f.node) if isinstance(st, ast.Assign) and any(isinstance(t, ast.Name) and t.id == e.id for t in st.targets)]
            muts = [x for x in ast.walk(f.node) if (isinstance(x, ast.Subscript) and isinstance(x.ctx, (ast.Store, ast.Del)) and dump(x.value) == e.id) or
                    (isinstance(x, ast.Call) and isinstance(x.func, ast.Attribute) and dump(x.func.value) == e.id and
                     x.func.attr in ("update", "pop", "setdefault", "clear", "popitem"))]
            if muts:
                return None
            if len(binds) == 1:
                return _options_table(prog, f, binds[0].value, depth + 1)
            if binds:
                return None
            f = getattr(f, "outer", None)
        return None
    if isinstance(e, ast.Attribute) and isinstance(e.value, ast.Name) and e.value.id == "self":
        f = fi
        while f is not None and f.cls is None:
            f = getattr(f, "outer", None)
        if f is None:
            return None
        binds = [st for st in f.cls.node.body if isinstance(st, ast.Assign) and any(isinstance(t, ast.Name) and t.id == e.attr for t in st.targets)]
        stores = [x for fn_ in prog.funcs.values() for x in ast.walk(fn_.node)
                  if isinstance(x, (ast.Attribute, ast.Subscript)) and isinstance(x.ctx, (ast.Store, ast.Del)) and e.attr in dump(x)]
        if len(binds) == 1 and not stores:
            return _options_table(prog, fi, binds[0].value, depth + 1)
    return None


def check(ck):
    prog = ck.prog
    from vlib import narrow
    # ---- C02.1 no escape ----------------------------------------------------------------------
    fm = prog.func(SRV, DISP + "._marshaled_dispatch")
    # C02.1b: the JSON backend is total on an error envelope whose members are JSON primitives: every
    # fault.response() of the server module is applied to a Fault built from (int literal, string expression,
    # config) only -- no rpcid, no data -- so Payload.error yields {jsonrpc: str, id: None, error: {code: int,
    # message: str}}.  This is what lets the jdumps call inside jsonrpc.dumps be treated as total below.
    n_resp = 0
    for fi in prog.module_funcs(SRV):
        g = cfg_of(fi)
        for n in g.live_nodes():
            for c in node_calls(n):
                if isinstance(c.func, ast.Attribute) and c.func.attr == "response" and not c.args and not c.keywords:
                    t = prov.origin(g, n, c.func.value)
                    n_resp += 1
                    plain = all(a[0] == "call" and prov.show(a[1]).endswith("Fault") and len(a[2]) <= 2 and
                                all(k in ("code", "message", "config") for (k, _v) in a[3]) for a in prov.alts(t))
                    if not plain:
                        # a `data` member made of strings / numbers / displays of them is as harmless (common.json_safe_expr)
                        from rules import common as _cm2
                        sites_ = [s_ for s_ in _cm2.fault_sites(prog) if s_.fi.fq == fi.fq]
                        plain = all(a[0] == "call" and prov.show(a[1]).endswith("Fault") and len(a[2]) <= 2 and
                                    all(k in ("code", "message", "config", "data") for (k, _v) in a[3]) for a in prov.alts(t)) and \
                            bool(sites_) and all(s_.arg("data", 4)[2] is None or _cm2.json_safe_expr(prog, *s_.arg("data", 4)) for s_ in sites_)
                    ck.require(plain, "C02.1b", "%s: %s.response()" % (q.fn(fi), dump(c.func.value)),
                               "Fault built from code, message, config only: its envelope is always serialisable",
                               "fault.response() is applied to %s: an id or data member that the JSON backend may reject "
                               "makes the final serialisation raise outside any guard" % prov.show(t)[:100], q.loc(fi, n))
    if n_resp < 2:
        raise AnalysisError("anchor vanished: fault.response() sites in the server module (found %d)" % n_resp)
    an = narrow.Analyzer(prog, total_in=[("jsonrpc.dumps", "jdumps")])
    summ = an.analyze(fm, {"self": narrow.obj("SimpleJSONRPCDispatcher"), "data": narrow.T("str"),
                           "dispatch_method": narrow.T("none", "func"), "path": narrow.ANY})
    ck.stat("e4_operations_classified", an.n_ops)
    ck.stat("e4_functions_analysed", len(an.summaries))
    with ck.guard("C02.1 escaping exception set"):
        for (exc, fi, node, why) in summ.escapes:
            def _by_value(t_):
                return any((isinstance(x_, ast.Compare) and any(isinstance(o_, (ast.Lt, ast.LtE, ast.Gt, ast.GtE)) for o_ in x_.ops)) or
                           (isinstance(x_, ast.Call) and dump(x_.func) in ("math.isnan", "math.isinf", "math.isfinite")) for x_ in ast.walk(t_))
            if why.startswith("explicit raise") and fi.module == "config" and fi.name == "__init__" and "[via Config.copy]" in why:
                # an argument check by value (a range test on a number) in the configuration classes: whether the values the dispatcher
                # passes satisfy it is a question about numbers, which E4 does not answer
                raise AnalysisError("%s validates its arguments and raises %s: whether the values Config.copy() passes while serving a request "
                                    "(the fields of a configuration that was itself validated) satisfy the check is not modelled" % (q.fn(fi), exc))
            ck.bad("C02.1", "%s: `%s` may raise %s" % (q.fn(fi), q.stmt_text(node), exc),
                   "%s escapes the dispatcher (%s): the request is not answered, the HTTP layer replies 500" % (exc, why),
                   q.loc(fi, node))
    if not summ.escapes:
        ck.ok("C02.1", "%s: escaping exception set" % q.fn(fm), "empty (%d operations classified in %d functions)" % (
            an.n_ops, len(an.summaries)), q.loc(fm, fm.node))
    for (fi, node, desc) in an.sample_ops[:12]:
        ck.ok("C02.1", "%s: %s" % (q.fn(fi), desc), "total for the narrowed types", q.loc(fi, node))
    if an.n_ops < 40:
        raise AnalysisError("C02.1 classified only %d operations (>= 40 confirmed)" % an.n_ops)

    # ---- C02.2 every path returns a reply -------------------------------------------------------
    gm = cfg_of(fm)
    rets = [n for n in gm.live_nodes() if n.kind == "return"]
    for rn in rets:
        if rn.ast is None:
            ck.bad("C02.2", "%s: implicit return" % q.fn(fm), "a path falls off the end of _marshaled_dispatch (returns None)", q.loc(fm, fm.node))
            continue
        t = prov.origin(gm, rn, rn.ast.value) if rn.ast.value is not None else ("const", None)
        good = False
        if t == ("const", ""):
            good = True
        elif t[0] == "call" and prov.show(t[1]).endswith("jdumps"):
            good = True
        elif t[0] == "call" and t[1][0] == "attr" and t[1][2] == "response" and t[1][1][0] == "call" and \
                prov.show(t[1][1][1]).endswith("Fault"):
            good = True
        ck.require(good, "C02.2", "%s: `%s`" % (q.fn(fm), q.stmt_text(rn)), "returns a reply text",
                   "_marshaled_dispatch returns %s, which is neither \"\", a serialised response nor fault.response()" % prov.show(t)[:80],
                   q.loc(fm, rn))
    ck.floor("C02.2", 4)
    fp = prog.func(SRV, "SimpleJSONRPCRequestHandler.do_POST")
    gp = cfg_of(fp)
    emit = set(n.id for n in gp.live_nodes() for c in node_calls(n) if call_name(c) == "end_headers")
    if not emit:
        raise AnalysisError("anchor vanished: end_headers() in do_POST")
    early = set()
    for n in gp.live_nodes():
        for c in node_calls(n):
            if call_name(c) in ("report_404", "decode_request_content"):
                early.add(n.id)

    def on_node(node, facts, data):
        cnt, answered = data
        if node.id in emit:
            cnt = min(cnt + 1, 2)
        if node.id in early:
            answered = True
        return [(facts, (cnt, answered))]
    # a failure of end_headers() (which flushes the header block) or of wfile.write(<bytes>) is an I/O failure of the connection:
    # whatever a handler emits afterwards goes to the same dead connection and is not a second reply anybody receives
    def _bytes_arg(n_, c_):
        if len(c_.args) != 1 or c_.keywords:
            return False
        return all(a[0] == "call" and (a[1] == ("name", "utils.to_bytes") or (a[1][0] == "attr" and a[1][2] in ("encode", "to_bytes")) or
                                       (a[1][0] == "name" and str(a[1][1]).endswith("to_bytes")))
                   or (a[0] == "const" and isinstance(a[1], bytes))
                   for a in prov.value_alts(prov.origin(gp, n_, c_.args[0])))
    io_only = set()
    for n in gp.live_nodes():
        cs = node_calls(n)
        if cs and all(call_name(c) == "end_headers" or (dump(c.func) in ("self.wfile.write", "self.wfile.flush") and (not c.args or _bytes_arg(n, c)))
                      for c in cs if not (isinstance(c.func, ast.Name) and c.func.id in ("len", "str"))):
            io_only.add(n.id)
    ex = Explorer(gp, on_node=on_node, init_data=(0, False), edge_filter=lambda a_, b_, l_: not (l_ == "exc" and a_ in io_only))
    seen = set()
    for st in states_at(ex, ("return",)):
        nid, facts, (cnt, answered) = st
        if (nid, cnt, answered) in seen:
            continue
        seen.add((nid, cnt, answered))
        rn = gp.nodes[nid]
        okk = cnt == 1 or (cnt == 0 and answered and rn.ast is not None)
        ck.require(okk, "C02.2", "%s: exit `%s` after %d emission(s)" % (q.fn(fp), q.stmt_text(rn) if rn.ast else "end", cnt),
                   "headers and body emitted exactly once", "do_POST can finish after %d header/body emissions" % cnt,
                   q.loc(fp, rn) if rn.ast else q.loc(fp, fp.node), ex.describe_path(st))
    # the header block is opened by a status line: every end_headers() is dominated by one send_response(<status>)
    from vlib.flow import dominators as _dom
    dgp = _dom(gp)
    srs = [(n, c) for n in gp.live_nodes() for c in node_calls(n) if call_name(c) in ("send_response", "send_response_only")]
    for eid in sorted(emit):
        en = gp.nodes[eid]
        from vlib.flow import reachable_avoiding as _ra
        before = [] if eid in _ra(gp, gp.entry.id, set(n.id for (n, _c) in srs)) else srs
        ck.require(len(before) >= 1, "C02.2", "%s: status line before `%s`" % (q.fn(fp), q.stmt_text(en)[:40]), "every path to the header block passes a send_response(...)",
                   "a reply can be emitted without a status line (no send_response before this end_headers()): the client cannot parse the "
                   "HTTP response that carries the JSON reply", q.loc(fp, en))
    # catch-all around read + dispatch
    dcalls = [n for n in gp.live_nodes() for c in node_calls(n) if call_name(c) == "_marshaled_dispatch"]
    if not dcalls:
        raise AnalysisError("anchor vanished: _marshaled_dispatch call in do_POST")
    for n in dcalls:
        hs = [t for t in ast.walk(fp.node) if isinstance(t, ast.Try) and q.try_body_contains(t, n.ast)]
        okk = any(h.type is None or dump(h.type) in ("Exception", "BaseException") for t in hs for h in t.handlers)
        ck.require(okk, "C02.2", "%s: catch-all around the dispatch" % q.fn(fp), "catch-all present",
                   "the dispatch in do_POST is not inside a catch-all that still answers", q.loc(fp, n))

    # ---- C02.3 one factory -------------------------------------------------------------------------
    n3 = 0
    for fi in prog.module_funcs(SRV):
        for sub in ast.walk(fi.node):
            keys = []
            if isinstance(sub, ast.Dict):
                keys = [k.value for k in sub.keys if isinstance(k, ast.Constant)]
            elif isinstance(sub, ast.Subscript) and isinstance(sub.ctx, ast.Store) and isinstance(sub.slice, ast.Constant):
                keys = [sub.slice.value]
            bad = [k for k in keys if k in ("result", "error", "jsonrpc", "code", "message")]
            if bad and _only_logged(fi.node, sub):
                continue        # a dictionary that only ever reaches a logging call (`extra=`, a lazy argument) is no part of a reply
            if bad:
                n3 += 1
                ck.bad("C02.3", "%s: dictionary with key(s) %s" % (q.fn(fi), bad),
                       "a response member is assembled by hand in the server module instead of Payload.response/error",
                       q.loc(fi, sub))
    ck.ok("C02.3", "%s: hand-made response dictionaries" % SRV, "none (%d functions scanned)" % len(prog.module_funcs(SRV)), "")

    # ---- C02.4 envelope shape -----------------------------------------------------------------------
    n4 = common.check_envelopes(ck, "C02.4", prog, ("response", "error"))
    ck.stat("envelope_cells", n4)
    ck.floor("C02.4", 8)
    # the version handed to the response builder must be config-derived, not request-derived
    fs = prog.func(SRV, DISP + "._marshaled_single_dispatch")
    gs = cfg_of(fs)
    for (n, c) in q.call_sites(prog, fs, lambda r, c: q.is_func(r, "jsonrpc.dump")):
        v = kwarg(c, "version", 3)
        if v is not None:
            t = prov.origin(gs, n, v)
            ck.require(not prov.contains(t, lambda x: x == ("param", fs.params[1])), "C02.4",
                       "%s: dump(version=...)" % q.fn(fs), "version not taken from the request",
                       "the reply's version is taken from the request (%s): a request with \"jsonrpc\": 3 is answered with "
                       "\"jsonrpc\": \"3.0\"" % prov.show(t), q.loc(fs, n))
        else:
            ck.ok("C02.4", "%s: dump(version=...)" % q.fn(fs), "version comes from the configuration", q.loc(fs, n))

    # ---- C02.6 the reply text can always be encoded ------------------------------------------------------------
    # utils.to_bytes(response) in do_POST (outside its catch-all) and response.encode() in the CGI handler are total only
    # because the default JSON backend escapes every non-ASCII character: json.dumps must keep ensure_ascii (default True).
    n6 = 0
    # (code under `if PYTHON_2:` / `if sys.version_info[0] < 3:` does not run on the interpreter the properties are stated for)
    py2 = set()
    for fi in prog.module_funcs("jsonlib"):
        for st in ast.walk(fi.node):
            if isinstance(st, ast.If) and (dump(st.test) == "PYTHON_2" or ("version_info" in dump(st.test) and isinstance(st.test, ast.Compare) and
                                                                         isinstance(st.test.ops[0], ast.Lt) and dump(st.test.comparators[0]).startswith(("3", "(3")))):
                for b in st.body:
                    py2.update(id(x) for x in ast.walk(b))
    for fi in prog.module_funcs("jsonlib"):
        for c in [x for x in ast.walk(fi.node) if isinstance(x, ast.Call) and dump(x.func) == "json.dumps" and id(x) not in py2]:
            n6 += 1
            if any(k.arg is None for k in c.keywords):
                # json.dumps(obj, **options): the options table is resolved (a dict display bound once, possibly a class attribute
                # copied with dict(...)); what cannot be resolved is refused, not guessed
                resolved = []
                for k in c.keywords:
                    if k.arg is not None:
                        resolved.append(k)
                        continue
                    dd = _options_table(prog, fi, k.value)
                    if dd is None:
                        raise AnalysisError("the options of `%s` in %s come from a table that cannot be resolved: not modelled" % (dump(c)[:50], q.fn(fi)))
                    resolved += [ast.keyword(arg=kk.value, value=vv) for (kk, vv) in zip(dd.keys, dd.values)]
                c = ast.copy_location(ast.Call(func=c.func, args=c.args, keywords=resolved), c)
            ea = [k for k in c.keywords if k.arg == "ensure_ascii"]
            okk = not ea or (isinstance(ea[0].value, ast.Constant) and ea[0].value.value is True)
            # options left at (or spelled out with) their default value, a layout option, or a `default=` hook - which is only consulted for
            # values the backend would otherwise refuse - change nothing a property speaks about
            def _harmless(k):
                if k.arg in ("ensure_ascii", "separators", "indent", "default"):
                    return True
                if k.arg in ("allow_nan", "check_circular"):
                    return isinstance(k.value, ast.Constant) and k.value.value is True
                if k.arg in ("sort_keys", "skipkeys"):
                    return isinstance(k.value, ast.Constant) and k.value.value is False
                if k.arg == "cls":
                    return isinstance(k.value, ast.Constant) and k.value.value is None
                return False
            other = [k.arg for k in c.keywords if not _harmless(k)]
            ck.require(not other and len(c.args) == 1, "C02.6", "%s: `%s` options" % (q.fn(fi), dump(c)), "json.dumps(obj) with default behaviour",
                       "the default backend is called with %s: options such as sort_keys / skipkeys / default / allow_nan / cls change which replies "
                       "can be serialised (sort_keys=True fails on a result dictionary with keys of mixed types, after the per-request conversion "
                       "succeeded: the whole reply degrades to one error with id null)" % (other or "extra positional arguments"), q.loc(fi, c))
            ck.require(okk and not any(k.arg is None for k in c.keywords), "C02.6", "%s: `%s`" % (q.fn(fi), dump(c)), "ASCII-only output (ensure_ascii left True)",
                       "the default backend emits raw non-ASCII characters (`%s`): a reply echoing a lone surrogate (\\ud800 in an id, a method name or a "
                       "result) cannot be encoded by to_bytes() in do_POST, which raises outside its catch-all - the request is not answered" % dump(c),
                       q.loc(fi, c))
    # ... and the loader of the default backend is json.loads itself: a home-made one (raw_decode, a pre-processing of the text)
    # accepts or rejects other bodies than the JSON parser does - what counts as "malformed JSON" / "non-JSON body" changes
    fgm = prog.func("jsonlib", "JsonHandler.get_methods")
    ggm = cfg_of(fgm)
    n6l = 0
    for rn in [n for n in ggm.live_nodes() if n.kind == "return" and n.ast is not None and isinstance(n.ast.value, ast.Tuple) and len(n.ast.value.elts) == 2]:
        n6l += 1
        tl = prov.origin(ggm, rn, rn.ast.value.elts[0])
        def _plain_wrapper(a_):
            # def loads_x(data): return json.loads(data)
            nm_ = a_[1] if a_[0] in ("global", "local", "func") and isinstance(a_[1], str) else None
            for d_ in ast.walk(fgm.node):
                if isinstance(d_, ast.FunctionDef) and d_.name == nm_ and d_ is not fgm.node:
                    body_ = [x for x in d_.body if not (isinstance(x, ast.Expr) and isinstance(x.value, ast.Constant))]
                    return len(body_) == 1 and isinstance(body_[0], ast.Return) and isinstance(body_[0].value, ast.Call) and \
                        dump(body_[0].value.func) == "json.loads" and len(body_[0].value.args) == 1 and not body_[0].value.keywords and \
                        isinstance(body_[0].value.args[0], ast.Name) and body_[0].value.args[0].id == d_.args.args[0].arg
            return False
        okl = all(a == ("attr", ("global", "json"), "loads") or a == ("global", "json.loads") or prov.show(a) == "json.loads" or _plain_wrapper(a)
                  for a in prov.value_alts(tl))
        ck.require(okl, "C02.6", "%s: loader returned for the default backend" % q.fn(fgm), "json.loads itself",
                   "the default backend decodes with %s instead of json.loads: bodies with trailing data, other encodings or lone values are "
                   "accepted / rejected differently from the JSON parser (a non-JSON body is no longer an error)" % prov.show(tl)[:60], q.loc(fgm, rn))
    if not n6l:
        raise AnalysisError("anchor vanished: the (loads, dumps) pair returned by JsonHandler.get_methods")
    gm_mod = prog.modules["jsonlib"]
    direct = [x for x in ast.walk(gm_mod.tree) if isinstance(x, ast.Return) and x.value is not None and "json.dumps" in dump(x.value) and
              isinstance(x.value, ast.Tuple)]
    if n6 < 1 and not direct:
        raise AnalysisError("anchor vanished: json.dumps in jsonlib")

    # ---- C02.7 termination structure / batch members --------------------------------------------------------------
    cl = common.closure(prog, common.serving_roots(prog))
    edges = dict((fq, set(r.fq for (_n, _c, r) in common.callees(prog, f_)) & set(cl)) for fq, f_ in cl.items())
    for comp in _cycles(edges):
        structural = all(x.startswith(("jsonclass.", "utils.")) for x in comp)       # recursion over sub-values / over the class hierarchy
        f0 = cl[sorted(comp)[0]]
        ck.require(structural, "C02.7", "serving call graph: cycle %s" % " -> ".join(sorted(comp)), "structural recursion over sub-values (jsonclass)",
                   "the serving code re-enters %s recursively: a request value nested inside itself (e.g. an array inside a batch array) is "
                   "processed again as a request / batch, replies are no longer one object or a flat array of objects and the depth of the "
                   "recursion is chosen by the client" % ", ".join(sorted(comp)), q.loc(f0, f0.node))
    ck.ok("C02.7", "serving call graph", "%d functions, %d call edges; no cycle outside jsonclass" % (len(cl), sum(len(v) for v in edges.values())), "")
    fu = prog.func(SRV, DISP + "._unmarshaled_dispatch")
    gu = cfg_of(fu)
    apps = [(n, c) for n in gu.live_nodes() for c in node_calls(n) if isinstance(c.func, ast.Attribute) and c.func.attr in ("append", "extend", "insert")]
    if not apps:
        raise AnalysisError("anchor vanished: batch assembly (append) in _unmarshaled_dispatch")
    for (n, c) in apps:
        okk = c.func.attr == "append" and len(c.args) == 1
        if okk:
            for a in prov.value_alts(prov.origin(gu, n, c.args[0])):
                single = a[0] == "call" and a[1] == ("attr", ("param", "self"), "_marshaled_single_dispatch")
                dumped = a[0] == "call" and a[1][0] == "attr" and a[1][2] == "dump" and not a[2]
                # a validate_request(...) value can only flow here on the paths where it was not a Fault and has been replaced
                # (path-insensitive provenance keeps it as an alternative): a per-entry producer as well
                validated = a[0] == "call" and a[1] == ("global", "validate_request")
                okk = okk and (single or dumped or validated)
        ck.require(okk, "C02.7", "%s: `%s`" % (q.fn(fu), dump(c)[:70]), "one response object per member",
                   "a batch reply member is %s: not the dump() of a Fault nor the reply of _marshaled_single_dispatch for one entry (an array "
                   "or foreign value can become a member of the reply array)" % prov.show(prov.origin(gu, n, c.args[0]))[:90] if c.args else "nothing",
                   q.loc(fu, n))
    ck.floor("C02.7", 4)

    # ---- C02.5 error typing ---------------------------------------------------------------------------
    n5 = 0
    for site in common.fault_sites(prog):
        n5 += 1
        fi, n = site.fi, site.node
        code_e = site.expr("code", 0)
        msg_e = site.expr("message", 1)
        code = site.code()
        if common.carried_by_exception(site):
            raise AnalysisError("the Fault of %s takes its code from the exception it handles (`%s`): error codes carried by exception "
                                "objects are not modelled" % (q.fn(fi), dump(site.expr("code", 0))))
        ck.require(code is not None, "C02.5", "%s: Fault #%d code" % (q.fn(fi), n5), "integer literal %s" % code,
                   "error code is not an integer literal: %s" % (dump(code_e) if code_e is not None else "default"), q.loc(fi, n))
        ck.require(msg_e is not None and (c05.is_string_expr(msg_e) or c05.is_string_term(site.origin("message", 1))), "C02.5", "%s: Fault #%d message" % (q.fn(fi), n5),
                   "string-typed message", "error message is not a string-typed expression: %s" % (dump(msg_e) if msg_e is not None else "default"),
                   q.loc(fi, n))
    ck.floor("C02.5", 20)
