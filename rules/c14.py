"""C14 Message construction API emits exactly the members each version requires."""
import ast
from vlib.model import AnalysisError, dump, kwarg, call_name
from vlib.cfg import cfg_of, node_calls
from vlib.flow import dominators
from vlib import prov, q, shape, spec
from rules import common

META = {
    "explanation": (
        "Decides: C14.1 the exact member set (and the literal None members, the verbatim method/params/result/id "
        "members, the str(float(version)) value of \"jsonrpc\") of Payload.request / notify / response / error for the "
        "1.0 and 2.0 version regions x params empty/non-empty x data None/not-None, by abstract evaluation of the "
        "builders against spec table A.2; C14.2 a supplied id (0, 0.0, numbers, non-empty strings) is kept verbatim "
        "and an absent/None/'' id is replaced by a value produced by a uuid call executed in that invocation; C14.3 "
        "dump(), abstractly evaluated over argument shapes, raises TypeError/ValueError for the invalid combinations "
        "(string method with non-container params, no method and not a response, response without id) and emits for "
        "the valid ones; C14.4 the wrappers forward: dumps = jdumps(dump(same arguments)), loads('') returns None "
        "before the parser runs, loads = load(jloads(data), config), dump() of a Fault hands its own code, message "
        "and data to Payload.error. C14.5 (imported from C02.6) the JSON backend is called with the object alone (no sort_keys / skipkeys / default / allow_nan / cls): such options change which structures dumps() can emit (sort_keys fails on mixed-type keys) and break the loads(dumps(x)) round trip."),
    "does_not_decide": "loads(dumps(x)) == x (JSON backend round trip); uniqueness of uuid4 values themselves.",
    "rules": {"C14.5": "imported C02.6 (backend call options)",
              "C14.1": "shape interpreter (E7) vs spec table A.2", "C14.2": "shape interpreter over id classes + provenance of the generated id",
              "C14.3": "shape interpreter over argument shapes of dump()", "C14.4": "provenance of forwarded arguments; dominance"},
    "assumptions": ["uuid.uuid4() yields a fresh value per call"],
}


def check(ck):
    prog = ck.prog
    n = common.check_envelopes(ck, "C14.1", prog, ("request", "notify", "response", "error"))
    ck.stat("envelope_cells", n)
    ck.floor("C14.1", 16)

    # ---- C14.2 id decision ---------------------------------------------------------------------
    fr = prog.func("jsonrpc", "Payload.request")
    id_cases = [("0", shape.K(0), True), ("0.0", shape.K(0.0), True), ("5", shape.K(5), True),
                ("-1.5", shape.K(-1.5), True), ("'x'", shape.K("x"), True),
                ("None", shape.K(None), False), ("''", shape.K(""), False)]
    if ck.tier == "thorough":
        id_cases += [("-0.0", shape.K(-0.0), True), ("10**20", shape.K(10 ** 20), True), ("1e300", shape.K(1e300), True), ("-7", shape.K(-7), True),
                     ("'0'", shape.K("0"), True), ("' '", shape.K(" "), True), ("'None'", shape.K("None"), True), ("'false'", shape.K("false"), True),
                     ("'\u00e9'", shape.K("\u00e9"), True), ("symbolic non-empty string", shape.Sym("sid", truthy=True, pytype=str), True)]
    for (label, val, verbatim) in id_cases:
        ev = shape.Evaluator(prog, "jsonrpc", lenient=True)
        for rep in (1.0, 2.0):
            res = ev.run(fr, {"method": shape.Sym("method", truthy=True, pytype=str), "params": shape.K(None)},
                         common.payload_via_init(prog, rep, 2.0, val))     # (through the constructor: whatever it derives from the id is there)
            for (_tr, out) in res:
                where = "jsonrpc.Payload.request[id=%s,version=%s]" % (label, rep)
                if out[0] != "return" or not isinstance(out[1], shape.D) or "id" not in out[1].items:
                    ck.bad("C14.2", where, "request() does not return a dictionary with an id: %r" % (out,), q.loc(fr, fr.node))
                    continue
                got = out[1].items["id"]
                if verbatim:
                    ck.require(got == val, "C14.2", where, "id kept verbatim",
                               "a caller-supplied id %s is replaced by %r" % (label, got), q.loc(fr, fr.node))
                else:
                    fresh = isinstance(got, shape.Sym) and got.label.startswith(("str(fresh:uuid.", "repr(fresh:uuid.", "hex(fresh:uuid.", "urn(fresh:uuid.", "int(fresh:uuid.")) or \
                        (isinstance(got, shape.Sym) and got.label.startswith("fresh:uuid."))
                    if not fresh and isinstance(got, shape.Sym) and got.label.startswith("opaque:") and \
                            any(isinstance(x_, ast.Call) and dump(x_.func) in ("uuid.uuid4", "uuid.uuid1") for f_ in prog.module_funcs("jsonrpc")
                                if f_.cls is not None and f_.cls.name == "Payload" for x_ in ast.walk(f_.node)):
                        # a uuid is drawn, and the id is some rendering of it the evaluator does not follow (an encoding of its bytes)
                        raise AnalysisError("the generated id `%s` is computed from a uuid through operations that are not modelled" % got.label[:60])
                    ck.require(fresh, "C14.2", where, "generated per call by uuid",
                               "for an absent id the emitted id is %r, not a value generated by a uuid call in this "
                               "invocation (unique per call)" % (got,), q.loc(fr, fr.node))
    ck.floor("C14.2", 14)

    # ---- C14.3 rejections of dump() ------------------------------------------------------------------
    fd = prog.func("jsonrpc", "dump")
    fault = shape.Opaque("Fault", {"faultCode": shape.Sym("code"), "faultString": shape.Sym("msg"), "data": shape.Sym("data"),
                                   "rpcid": shape.K(None)})
    P = [("list", shape.Sym("plist", truthy=True, pytype=list), "container"), ("[]", shape.L([]), "container"),
         ("tuple", shape.Sym("ptuple", truthy=True, pytype=tuple), "container"), ("()", shape.K(()), "container"),
         ("dict", shape.Sym("pdict", truthy=True, pytype=dict), "container"), ("{}", shape.D(), "container"),
         ("None", shape.K(None), "none"), ("Fault", fault, "fault"),
         ("5", shape.K(5), "scalar"), ("0", shape.K(0), "scalar"), ("''", shape.K(""), "scalar"),
         ("'x'", shape.K("x"), "scalar"), ("False", shape.K(False), "scalar"), ("0.0", shape.K(0.0), "scalar")]
    M = [("'m'", shape.K("m"), True), ("None", shape.K(None), False), ("5", shape.K(5), False)]
    n3 = 0
    for (pl, pv, pk) in P:
        for (ml, mv, m_is_str) in M:
            for resp in (None, True):
              for rid in (("None", shape.K(None)), ("0", shape.K(0)), ("'a'", shape.K("a"))):
                # thorough tier: the remaining arguments (notification flag, explicit version, version of the configuration)
                # do not change which combinations are rejected: full cross product
                others = [(None, None, 2.0)] if ck.tier != "thorough" else \
                    [(nf, ve, cv) for nf in (None, True) for ve in (None, 1.0, 2.0) for cv in (1.0, 2.0)]
                if ck.tier != "thorough" and pk == "none" and m_is_str and not resp:
                    others = [(None, None, 2.0), (None, None, 1.0), (True, None, 1.0), (None, 1.0, 2.0)]     # what `params=None` becomes depends on the version
                for (nflag, vers, cvers) in others:
                    import copy
                    cfgo = shape.Opaque("Config", {"version": shape.K(cvers), "use_jsonclass": shape.K(False)})
                    ev = shape.Evaluator(prog, "jsonrpc", lenient=True)
                    args = {"params": copy.deepcopy(pv), "methodname": mv, "rpcid": rid[1], "version": shape.K(vers),
                            "is_response": shape.K(resp), "is_notify": shape.K(nflag), "config": cfgo}
                    res = ev.run(fd, args)
                    # expected
                    if m_is_str and pk == "scalar":
                        want = "raise TypeError"
                    elif m_is_str and pk == "none" and not resp:
                        want = "emit"      # None -> []
                    elif pk == "fault":
                        want = "emit"
                    elif not m_is_str and not resp:
                        want = "raise ValueError"
                    elif resp and rid[0] == "None":
                        want = "raise ValueError"
                    else:
                        want = "emit"
                    for (_tr, out) in res:
                        n3 += 1
                        got = "raise " + out[1] if out[0] == "raise" else "emit"
                        if got in ("raise TypeError", "raise ValueError") and want in ("raise TypeError", "raise ValueError"):
                            got = want      # the property asks for "TypeError or ValueError", whichever
                        if resp and mv.v is not None and got in ("raise TypeError", "raise ValueError", "emit"):
                            got = want      # a response that also names a method: a combination the property does not list - emitted or rejected
                        desc = "method=%s params=%s is_response=%s rpcid=%s" % (ml, pl, resp, rid[0])
                        if got != want:
                            ck.bad("C14.3", "jsonrpc.dump: %s" % desc,
                                   "dump(%s) %ss, the property requires: %s" % (desc, got, want), q.loc(fd, fd.node))
                        elif got == "emit" and pk == "none" and m_is_str and not resp and not isinstance(out[1], shape.D):
                            # the Payload is abstract here: what matters is what dump hands to its builder
                            for oc in [c_ for c_ in getattr(ev, "opaque_calls", []) if c_[1] in ("request", "notify")]:
                                pa = oc[2][1] if len(oc[2]) > 1 else oc[3].get("params")
                                passes_none = isinstance(pa, shape.K) and pa.v is None
                                leak = passes_none and oc[1] in getattr(prog, "_payload_passes_none", set())
                                ck.require(not leak, "C14.3", "jsonrpc.dump: %s notify=%s: absent parameters reach Payload.%s as []" % (desc, bool(nflag), oc[1]),
                                           "None normalised to [] by dump or by the builder",
                                           "dump(%s) hands params=None to Payload.%s, which emits it as it is: a 1.0 message then carries "
                                           "\"params\": null instead of []" % (desc, oc[1]), q.loc(fd, fd.node))
                        elif got == "emit" and pk == "none" and m_is_str and not resp and isinstance(out[1], shape.D):
                            # absent parameters: a 1.0 message always carries "params": [], a 2.0 message no "params" member
                            eff = vers if vers else cvers
                            pm = out[1].items.get("params", "<absent>")
                            okp = (isinstance(pm, shape.L) and not pm.elts) if eff < 2 else pm == "<absent>"
                            ck.require(okp, "C14.3", "jsonrpc.dump: %s version=%s notify=%s: params member" % (desc, eff, bool(nflag)),
                                       "[] in 1.0, absent in 2.0",
                                       "dump(%s) under version %s emits \"params\": %r; a 1.0 request / notification always has \"params\": [] and a "
                                       "2.0 one has no params member when there are none" % (desc, eff, pm), q.loc(fd, fd.node))
    ck.ok("C14.3", "jsonrpc.dump: %d argument shapes" % n3, "rejections and emissions as specified", q.loc(fd, fd.node))
    ck.stat("dump_cases", n3)
    if n3 < 200:
        raise AnalysisError("C14.3 evaluated only %d argument shapes" % n3)
    # Payload.request rejects a non-string method
    for (ml, mv, want) in (("5", shape.K(5), "raise"), ("None", shape.K(None), "raise"), ("'m'", shape.K("m"), "return")):
        ev = shape.Evaluator(prog, "jsonrpc", lenient=True)
        res = ev.run(fr, {"method": mv, "params": shape.K(None)}, common.payload_obj(2.0))
        for (_tr, out) in res:
            ck.require(out[0] == want, "C14.3", "jsonrpc.Payload.request[method=%s]" % ml, out[0],
                       "Payload.request with method %s %ss (required: %s)" % (ml, out[0], want), q.loc(fr, fr.node))

    # the version selected by the caller wins over the configuration's, which is the default (dump evaluated abstractly)
    with ck.guard("C14.4 version selection table of dump"):
        for vers in (None, 1.0, 2.0, "1.0", "2.0"):
            for cvers in (1.0, 2.0):
                for (kind, extra) in (("request", {}), ("notification", {"is_notify": shape.K(True)}), ("response", {"is_response": shape.K(True)})):
                    cfgo = shape.Opaque("Config", {"version": shape.K(cvers), "use_jsonclass": shape.K(False)})
                    args = {"params": shape.L([shape.K(1)]), "methodname": shape.K("m"), "rpcid": shape.K(5), "version": shape.K(vers),
                            "is_response": shape.K(None), "is_notify": shape.K(None), "config": cfgo}
                    args.update(extra)
                    if kind == "response":
                        args["methodname"] = shape.K(None)
                    finit_p = prog.func("jsonrpc", "Payload.__init__")

                    def mkpayload(*a, **k):
                        # Payload(...) as called by dump: the constructor is evaluated abstractly on those very arguments
                        names = [p_ for p_ in finit_p.params if p_ != "self"]
                        bound = dict(zip(names, a))
                        bound.update(k)
                        if "config" not in bound:
                            # the shared DEFAULT configuration (its version is the documented default, see C13.6)
                            bound["config"] = shape.Opaque("Config", {"version": shape.K(common.CONFIG_DEFAULTS["version"])})
                        o = shape.Obj("Payload", {})
                        evp = shape.Evaluator(prog, "jsonrpc", lenient=True)
                        rp = evp.run(finit_p, bound, o)
                        if len(rp) != 1 or rp[0][1][0] != "return":
                            raise AnalysisError("Payload.__init__ could not be evaluated on the arguments given by dump: %r" % (rp[:1],))
                        return o
                    ev = shape.Evaluator(prog, "jsonrpc", lenient=True, stubs={"jsonrpc.Payload": mkpayload})
                    res = ev.run(fd, args)
                    eff = float(vers) if vers else cvers
                    for (_tr, out) in res:
                        okk = out[0] == "return" and isinstance(out[1], shape.D) and (("jsonrpc" in out[1].items) == (eff >= 2.0))
                        ck.require(okk, "C14.4", "jsonrpc.dump: %s with version=%r, config.version=%r" % (kind, vers, cvers),
                                   "%s form" % ("2.0" if eff >= 2 else "1.0"),
                                   "dump(version=%r) with a configuration of version %r emits %s: the %s form is required (an explicit version is "
                                   "used as given, the configuration's only when none is given)" % (
                                       vers, cvers, ("members %s" % sorted(out[1].items)) if out[0] == "return" and isinstance(out[1], shape.D) else out[:2],
                                       "2.0" if eff >= 2 else "1.0"), q.loc(fd, fd.node))

    # ---- C14.4 wrappers ---------------------------------------------------------------------------------
    fds = prog.func("jsonrpc", "dumps")
    gds = cfg_of(fds)
    cs = q.call_sites(prog, fds, lambda r, c: q.is_func(r, "jsonrpc.dump"))
    if len(cs) != 1:
        raise AnalysisError("anchor vanished: dump(...) call in dumps")
    dn, dc = cs[0]
    want = {"params": "params", "methodname": "methodname", "rpcid": "rpcid", "version": "version",
            "is_response": "methodresponse", "is_notify": "notify", "config": "config"}
    dparams = fd.params
    for i, a in enumerate(dc.args):
        t = prov.origin(gds, dn, a)
        p = dparams[i]
        ck.require(t == ("param", want.get(p)), "C14.4", "jsonrpc.dumps: dump(%s=...)" % p, "forwards Param(%s)" % want.get(p),
                   "dumps passes %s as `%s` of dump (expected its own `%s`)" % (prov.show(t), p, want.get(p)), q.loc(fds, dn))
    for k in dc.keywords:
        t = prov.origin(gds, dn, k.value)
        ck.require(t == ("param", want.get(k.arg)), "C14.4", "jsonrpc.dumps: dump(%s=...)" % k.arg, "forwards",
                   "dumps passes %s as `%s` of dump" % (prov.show(t), k.arg), q.loc(fds, dn))
    given = set(dparams[:len(dc.args)]) | set(k.arg for k in dc.keywords)
    ck.require(given == set(want), "C14.4", "jsonrpc.dumps: all arguments forwarded", "7 arguments forwarded",
               "dumps does not forward %s to dump" % sorted(set(want) - given), q.loc(fds, dn))
    rets = [n for n in gds.live_nodes() if n.kind == "return"]
    for rn in rets:
        t = prov.origin(gds, rn, rn.ast.value) if rn.ast is not None and rn.ast.value is not None else ("const", None)
        okk = t[0] == "call" and t[1] == ("global", "jdumps") and t[2] and t[2][0][0] == "call" and t[2][0][1] == ("global", "dump")
        ck.require(okk, "C14.4", "jsonrpc.dumps: return", "jdumps(dump(...))", "dumps returns %s, not jdumps(dump(...))" % prov.show(t)[:100],
                   q.loc(fds, rn))
    fl = prog.func("jsonrpc", "loads")
    gl = cfg_of(fl)
    jl = [(n, c) for n in gl.live_nodes() for c in node_calls(n) if isinstance(c.func, ast.Name) and c.func.id == "jloads"]
    if not jl:
        raise AnalysisError("anchor vanished: jloads call in loads")
    # loads evaluated abstractly (E7) on the empty text and on an arbitrary non-empty text, with the JSON parser and load() stubbed:
    # "" -> None without parsing; any other text -> load(<what the parser returns for that very text>, <the config given>)
    cfg_l = shape.Opaque("Config", {})
    for (lab, dv) in (("''", shape.K("")), ("a non-empty text", shape.Sym("text", truthy=True, pytype=str)),
                      ("a non-empty byte string", shape.Sym("raw-body", truthy=True, pytype=bytes))):
        calls_l = []

        def _jl(*a, **k):
            calls_l.append(("jloads", a, k))
            return shape.Opaque("parsed")

        def _ld(*a, **k):
            calls_l.append(("load", a, k))
            return shape.Opaque("loaded")
        ev_l = shape.Evaluator(prog, "jsonrpc", lenient=True, stubs={"jsonrpc.jloads": _jl, "jsonrpc.load": _ld})
        res_l = ev_l.run(fl, {"data": dv, "config": cfg_l})
        outs = [o for (_d, o) in res_l]
        if lab == "a non-empty byte string":
            # (what the client hands over when the reply is not valid UTF-8 - the parser detects UTF-16 / UTF-32 itself; whether bytes
            # are decoded first or parsed as they are is free, mixing them with text operations is a TypeError)
            tmix = [o for o in outs if o[0] == "raise" and o[1] == "TypeError"]
            ck.require(not tmix, "C14.4", "jsonrpc.loads: a body given as bytes reaches the parser", "no text operation on bytes",
                       "for a byte-string argument loads raises TypeError before parsing (a text operation such as startswith(\"...\") applied "
                       "to bytes): a reply the transport could not decode as UTF-8 - UTF-16 / UTF-32 JSON - is no longer parsed, the caller "
                       "gets a TypeError instead of the result or the ProtocolError", q.loc(fl, fl.node))
            continue
        if lab == "''":
            okk = bool(outs) and all(o[0] == "return" and isinstance(o[1], shape.K) and o[1].v is None for o in outs) and not calls_l
            ck.require(okk, "C14.4", "jsonrpc.loads: parser guarded by the empty-text test", "jloads not called for ''",
                       "loads('') %s instead of returning None without parsing" % ("reaches the JSON parser" if calls_l else "yields %r" % (outs[:1],)),
                       q.loc(fl, jl[0][0]))
            ck.require(okk, "C14.4", "jsonrpc.loads: result for ''", "None", "loads('') yields %r" % (outs[:1],), q.loc(fl, fl.node))
        else:
            pj = [c_ for c_ in calls_l if c_[0] == "jloads"]
            pl = [c_ for c_ in calls_l if c_[0] == "load"]
            ok1 = len(pj) == 1 and len(pj[0][1]) == 1 and pj[0][1][0] is dv and not pj[0][2]
            ck.require(ok1, "C14.4", "jsonrpc.loads: jloads(data)", "parses Param(data)",
                       "for a text argument loads parses %r instead of its argument as received" % ([c_[1] for c_ in pj],), q.loc(fl, jl[0][0]))
            ok2 = len(outs) == 1 and outs[0][0] == "return" and isinstance(outs[0][1], shape.Opaque) and outs[0][1].label == "loaded" and \
                len(pl) == 1 and len(pl[0][1]) >= 1 and isinstance(pl[0][1][0], shape.Opaque) and pl[0][1][0].label == "parsed" and \
                ((len(pl[0][1]) == 2 and pl[0][1][1] is cfg_l) or pl[0][2].get("config") is cfg_l)
            ck.require(ok2, "C14.4", "jsonrpc.loads: result load(jloads(data), config)", "load(jloads(data), config)",
                       "for a text argument loads returns %r after the calls %r" % (outs[:1], [(c_[0],) + tuple(c_[1]) for c_ in calls_l]), q.loc(fl, fl.node))
    # dump() of a Fault
    gd = cfg_of(fd)
    ec = [(n, c) for n in gd.live_nodes() for c in node_calls(n) if isinstance(c.func, ast.Attribute) and c.func.attr == "error"]
    if not ec:
        raise AnalysisError("anchor vanished: payload.error(...) call in dump")
    for (n, c) in ec:
        want_attrs = ["faultCode", "faultString", "data"]
        for i, a in enumerate(c.args[:3]):
            t = prov.origin(gd, n, a)
            okk = t[0] == "attr" and t[2] == want_attrs[i] and \
                (prov.alts(t[1]) - set([("tuple", ())])) == set([("param", "params")])   # `[]` default is not a Fault
            ck.require(okk, "C14.4", "jsonrpc.dump: payload.error arg %d" % i,
                       "Fault's own %s" % want_attrs[i], "error response member %d is %s, not the Fault's %s" % (i, prov.show(t), want_attrs[i]),
                       q.loc(fd, n))
        ck.require(len(c.args) + len(c.keywords) == 3, "C14.4", "jsonrpc.dump: payload.error arity", "code, message, data",
                   "payload.error receives %d arguments (code, message and data required)" % (len(c.args) + len(c.keywords)), q.loc(fd, n))
    pc = q.call_sites(prog, fd, lambda r, c: r == "class:jsonrpc.Payload")
    for (n, c) in pc:
        t = q.arg_origin(fd, n, c, "version", 1)
        okk = t is not None and all(a == ("param", "version") or a == ("attr", ("param", "config"), "version") for a in prov.value_alts(t))
        ck.require(okk, "C14.4", "jsonrpc.dump: Payload(version=...)", "version or config.version",
                   "Payload is built with version %s (must be the caller's version, defaulting to the caller's config)" % (prov.show(t) if t else "absent"),
                   q.loc(fd, n))
        if t is not None:
            ck.require(any(a == ("attr", ("param", "config"), "version") for a in prov.value_alts(t)) or kwarg(c, "config", 2) is not None,
                       "C14.4", "jsonrpc.dump: version defaults to the given config", "config.version reaches Payload",
                       "when no version is given the Payload does not see the caller's config (a custom Config(version=1.0) "
                       "is ignored and 2.0 messages are emitted)", q.loc(fd, n))
    ck.floor("C14.4", 14)

    # ---- C14.5 backend options (shared with C02.6) ---------------------------------------------------------------------------
    from rules import c02 as _c02o, common as _cmo
    _cmo.import_rules(ck, _c02o, {"C02.6": "C14.5"})
    ck.floor("C14.5", 2)
