"""C11 join() means finished; stop() always terminates; the pool is restartable."""
import ast
from vlib.model import AnalysisError, dump, kwarg, call_name
from vlib.cfg import cfg_of, node_calls
from vlib.flow import dominators
from vlib import prov, q
from vlib.locks import ClassLocks
from rules import common

META = {
    "explanation": (
        "Decides: C11.1 every `return True` of join() is dominated by Queue.join() or by a test of the queue's unfinished "
        "task count (tests of empty()/qsize() do not count: an empty queue is not a finished one); C11.2 the untimed branch "
        "is selected by `timeout is None` (identity, so join(0) is a timed join), the timed branch waits on all_tasks_done "
        "under that condition and returns `not unfinished_tasks`; C11.3 stop(): idempotence guard first, flag set, one "
        "sentinel put per registered thread, every snapshot thread joined outside the pool lock, thread list cleared and "
        "queue drained afterwards; start(): no-op unless stopped; C11.4 restart: the pool state after stop() equals the "
        "constructed state - the thread list is emptied, the thread counter is decremented exactly once per worker exit "
        "and the pending counter is only moved +1 per queued / -1 per executed task (imported from C10.7/C10.7b); C11.5 "
        "the worker marks every dequeued item done exactly once on every path, exceptional ones included (imported from "
        "C09.2: otherwise join(timeout) is False forever and stop() never returns); C11.6 (imported from C09.5) stop() joins a snapshot "
        "of the thread list taken under the pool lock and waits for every member until it is not alive (joining the live list "
        "lets a worker that unregisters itself hide the next one), every started worker is registered in that list, and (C09.6) a new pool is in the stopped state and start() clears the flag before it creates workers; C11.7 every queue put/get made by stop() and clear() is non-blocking or carries a timeout (put(item, block, timeout): a timeout passed in the block position leaves the wait unbounded)."),
    "does_not_decide": "termination of stop() under all interleavings; behaviour of the timeouts themselves.",
    "rules": {"C11.1": "dominance over the `return True` exits", "C11.2": "normalised branch condition + provenance of the returned value",
              "C11.3": "ordering by dominance + lockset", "C11.4": "imported C10.7 / C10.7b + store scan", "C11.5": "imported C09.2", "C11.6": "imported C09.5, C09.6",
              "C11.7": "E5 blocking-call table: block / timeout arguments of the queue calls"},
    "assumptions": ["queue.Queue.join returns when unfinished_tasks reaches 0; task_done notifies all_tasks_done at 0 (audited from the stdlib source in the thorough tier)"],
}

TP = "threadpool"


def check(ck):
    prog = ck.prog
    ci = prog.cls(TP, "ThreadPool")
    cl = ClassLocks(prog, ci)
    fj = prog.func(TP, "ThreadPool.join")
    g = cfg_of(fj)
    d = dominators(g)
    # ---- C11.1 ---------------------------------------------------------------------------------
    qjoin = [n for n in g.live_nodes() for c in node_calls(n) if dump(c.func) == "self._queue.join"]
    n1 = 0
    for rn in [n for n in g.live_nodes() if n.kind == "return"]:
        v = rn.ast.value if rn.ast is not None else None
        if isinstance(v, ast.Constant) and v.value is True:
            n1 += 1
            by_join = any(j.id in d[rn.id] for j in qjoin)
            # a dominating branch edge that can only be taken when the unfinished-task count is 0 (the test folded for 0, 1, many)
            by_count = False
            for i in d[rn.id]:
                b = g.nodes[i]
                if b.kind == "branch" and "self._queue.unfinished_tasks" in dump(b.test):
                    try:
                        taken = [k_ for k_ in (0, 1, 7) if bool(common.fold_int_predicate(b.test, "self._queue.unfinished_tasks", k_)) == bool(b.polarity)]
                    except AnalysisError:
                        continue
                    if taken == [0]:
                        by_count = True
            empties = [dump(g.nodes[i].test) for i in d[rn.id] if g.nodes[i].kind == "branch" and ("empty()" in dump(g.nodes[i].test) or "qsize()" in dump(g.nodes[i].test))]
            ck.require(by_join or by_count, "C11.1", "%s: `return True` #%d" % (q.fn(fj), n1), "dominated by Queue.join() or an unfinished-task test",
                       "join() can return True without the tasks being finished: the exit is guarded only by %s (an empty queue does not mean that the "
                       "dequeued tasks are done)" % (empties or "nothing"), q.loc(fj, rn))
    if n1 < 2:
        raise AnalysisError("anchor vanished: `return True` exits of ThreadPool.join (found %d)" % n1)

    # ---- C11.2 ---------------------------------------------------------------------------------------
    for j in qjoin:
        sel = [g.nodes[i] for i in d[j.id] if g.nodes[i].kind == "branch" and "timeout" in dump(g.nodes[i].test)]
        okk = any(dump(b.test) == "timeout is None" and b.polarity for b in sel) or any(dump(b.test) == "timeout is not None" and not b.polarity for b in sel)
        ck.require(okk and len(sel) == 1, "C11.2", "%s: untimed Queue.join() selected by `timeout is None`" % q.fn(fj), "identity test",
                   "the blocking Queue.join() is selected by %s: join(0) (a timed join that must return False while tasks run) blocks forever"
                   % [dump(b.test) + ("" if b.polarity else " [false edge]") for b in sel], q.loc(fj, j))
    waits = [n for n in g.live_nodes() for c in node_calls(n) if dump(c.func) == "self._queue.all_tasks_done.wait"]
    ck.require(len(waits) == 1 and "self._queue.all_tasks_done" in waits[0].withs, "C11.2", "%s: timed wait under the condition" % q.fn(fj),
               "all_tasks_done.wait(timeout) inside `with all_tasks_done`", "the timed branch does not wait on all_tasks_done while holding it", q.loc(fj, fj.node))
    for w in waits:
        for c in node_calls(w):
            if dump(c.func).endswith(".wait"):
                t = prov.origin(g, w, c.args[0]) if c.args else None
                def _deadline_arith(t_):
                    # what is left of the caller's timeout on the monotonic clock: (monotonic() + timeout) - monotonic(), also clipped with max(0, .)
                    if t_ == ("param", "timeout"):
                        return True
                    ok_ = [True]

                    def _scan(x):
                        if not isinstance(x, tuple) or not x:
                            return
                        if x[0] == "call":
                            nm_ = prov.show(x[1])
                            if not (nm_.endswith("monotonic") or nm_.endswith("monotonic()") or nm_ in ("max", "min", "Global(max)", "Global(min)") or
                                    "monotonic" in nm_ or nm_.split(".")[-1] in ("max", "min")):
                                ok_[0] = False
                        if x[0] == "binop" and x[1] not in ("Add", "Sub"):
                            ok_[0] = False
                        for y in x[1:]:
                            if isinstance(y, tuple):
                                if y and isinstance(y[0], str):
                                    _scan(y)
                                else:
                                    for z in y:
                                        _scan(z)
                            elif isinstance(y, frozenset):
                                for z in y:
                                    _scan(z)
                    _scan(t_)
                    return ok_[0] and prov.contains(t_, lambda x: x == ("param", "timeout")) and \
                        prov.contains(t_, lambda x: x[0] == "call" and "monotonic" in prov.show(x[1]))
                if t is not None and t != ("param", "timeout") and _deadline_arith(t):
                    ck.ok("C11.2", "%s: wait(timeout)" % q.fn(fj), "waits what is left of the caller's timeout (monotonic deadline)", q.loc(fj, w))
                    continue
                ck.require(t == ("param", "timeout"), "C11.2", "%s: wait(timeout)" % q.fn(fj), "waits the caller's timeout",
                           "the timed join waits %s" % (prov.show(t) if t else "without timeout"), q.loc(fj, w))
        if any(isinstance(lp_, ast.While) and any(x_ is c_ for c_ in node_calls(w) for x_ in ast.walk(lp_)) and "unfinished_tasks" in dump(lp_.test)
               for lp_ in ast.walk(fj.node)):
            # a deadline loop `while unfinished_tasks: wait(remaining)`: what it returns depends on how the loop is left, which the folded
            # predicate below does not describe
            raise AnalysisError("ThreadPool.join waits in a loop over the unfinished count (deadline loop): not modelled")
        rets = [n for n in g.live_nodes() if n.kind == "return" and w.id in d[n.id]]
        okr = False
        if len(rets) == 1 and rets[0].ast.value is not None:
            # the returned expression, folded for 0, 1 and many unfinished tasks: True exactly for 0
            try:
                vals = [common.fold_int_predicate(rets[0].ast.value, "self._queue.unfinished_tasks", k_) for k_ in (0, 1, 7)]
                okr = [bool(v) for v in vals] == [True, False, False]
            except AnalysisError:
                okr = False
        ck.require(okr,
                   "C11.2", "%s: timed join returns `not unfinished_tasks`" % q.fn(fj), "completion reported from the unfinished count",
                   "the timed join returns `%s`" % (dump(rets[0].ast.value) if rets else None), q.loc(fj, w))

    # ---- C11.3 stop protocol -----------------------------------------------------------------------------
    fs = prog.func(TP, "ThreadPool.stop")
    gs = cfg_of(fs)
    ds = dominators(gs)
    # idempotence: everything stop() does (flag, sentinels, joins, clearing) happens only on the "not yet stopped" edge of a
    # test of the stop flag - spelled as an early return or as an enclosing `if not ...is_set()`
    effects = [n for n in gs.live_nodes() for c in node_calls(n)
               if dump(c.func) in ("self._done_event.set", "self._queue.put", "self.clear") or (call_name(c) == "join" and isinstance(c.func.value, ast.Name))]
    effects += [n for n in gs.live_nodes() if n.kind == "stmt" and isinstance(n.ast, ast.Delete)]
    okk = bool(effects) and all(any(gs.nodes[i].kind == "branch" and dump(gs.nodes[i].test) == "self._done_event.is_set()" and not gs.nodes[i].polarity
                                    for i in ds[n.id]) for n in effects)
    ck.require(okk, "C11.3", "%s: idempotence guard" % q.fn(fs), "nothing is done when already stopped",
               "stop() has no idempotence guard on the stop flag: some of its steps run although the pool is already stopped", q.loc(fs, fs.node))
    flag = [n for n in gs.live_nodes() for c in node_calls(n) if dump(c.func) == "self._done_event.set"]
    sput = [n for n in gs.live_nodes() for c in node_calls(n) if dump(c.func) in ("self._queue.put", "self._queue.put_nowait")]
    joins = [n for n in gs.live_nodes() for c in node_calls(n) if call_name(c) == "join" and isinstance(c.func.value, ast.Name)]
    clears = [n for n in gs.live_nodes() if n.kind == "stmt" and isinstance(n.ast, ast.Delete) and "_threads" in dump(n.ast)]
    drain = [n for n in gs.live_nodes() for c in node_calls(n) if dump(c.func) == "self.clear"]
    if not (flag and sput and joins and clears and drain):
        raise AnalysisError("anchor vanished: flag/sentinel/join/clear steps of ThreadPool.stop")
    ck.require(flag[0].id in ds[sput[0].id], "C11.3", "%s: flag set before the sentinels" % q.fn(fs), "ordered", "sentinels are queued before the stop flag is set", q.loc(fs, sput[0]))
    def _thread_list(n_, e_):
        t_ = prov.origin(gs, n_, e_)
        own = ("attr", ("param", "self"), "_threads")
        return t_ == own or (t_[0] == "call" and t_[1] == ("global", "list") and t_[2] == (own,)) or \
            (t_[0] == "item" and t_[1] == own) or dump(e_) == "self._threads[:]"
    loop = [n for n in gs.live_nodes() if n.kind == "for_body" and _thread_list(n, n.ast.iter) and n.id in ds[sput[0].id]]
    ck.require(bool(loop), "C11.3", "%s: one sentinel per registered thread" % q.fn(fs), "put inside `for _ in self._threads`",
               "stop() does not queue one wake-up sentinel per registered worker", q.loc(fs, sput[0]))
    # every registered thread gets its sentinel: inside the loop the put is unconditional and nothing leaves the loop early
    for (ln, _to) in [(l_, None) for l_ in loop]:
        body_nodes = [x for st_ in ln.ast.body for x in ast.walk(st_)]
        # (leaving the loop from the handler of queue.Full is the clean tree's own behaviour: there the try encloses the loop)
        in_full_handler = set(id(x) for h_ in body_nodes if isinstance(h_, ast.ExceptHandler) and h_.type is not None and "Full" in dump(h_.type)
                              for b_ in h_.body for x in ast.walk(b_))
        early = [x for x in body_nodes if isinstance(x, (ast.Break, ast.Continue, ast.Return)) and id(x) not in in_full_handler]
        guards = [gs.nodes[i] for i in ds[sput[0].id] if gs.nodes[i].kind == "branch" and any(gs.nodes[i].test is x or gs.nodes[i].test in body_nodes for x in body_nodes)]
        ck.require(not early and not guards, "C11.3", "%s: the sentinel loop puts once per thread, unconditionally" % q.fn(fs), "no guard, no early exit",
                   "the loop that queues the stop sentinels %s: some registered workers get no sentinel and, blocked in get(), never learn "
                   "that the pool was stopped" % (("leaves early (`%s`)" % dump(early[0])) if early else (("puts under the condition `%s`" % dump(guards[0].test)) if guards else "")),
                   q.loc(fs, sput[0]))
    # the sentinel waits for room: a non-blocking put gives up at once on a full queue (the Full handler skips the remaining
    # sentinels), although room appears as soon as a worker dequeues - the workers that got none never learn about the stop
    from vlib.locks import queue_call_bounds
    for sp in sput:
        for c in node_calls(sp):
            if dump(c.func) not in ("self._queue.put", "self._queue.put_nowait"):
                continue
            nb = dump(c.func).endswith("put_nowait")
            if not nb:
                blk, _tmo = queue_call_bounds(c)
                nb = isinstance(blk, ast.Constant) and blk.value is False
            ck.require(not nb, "C11.3", "%s: the sentinel put waits for room" % q.fn(fs), "blocking put (bounded by the pool timeout)",
                       "`%s` does not wait: on a bounded queue that is full the remaining sentinels are dropped, idle workers with no "
                       "timeout never wake up and stop() waits for them forever" % dump(c)[:50], q.loc(fs, sp))
    for jn in joins:
        ck.require("__lock" not in cl.held(fs, jn), "C11.3", "%s: `%s` outside the pool lock" % (q.fn(fs), q.stmt_text(jn)), "joined without the lock",
                   "worker threads are joined while holding the pool lock: a worker that needs the lock to finish can never be joined", q.loc(fs, jn))
    from vlib.flow import reachable_avoiding
    after = True
    for x in (clears[0], drain[0]):
        fwd = reachable_avoiding(gs, x.id, set(), lambda l: l != "exc")
        back = set()
        for j in joins:
            back |= reachable_avoiding(gs, j.id, set(), lambda l: l != "exc")
        # the clearing step follows the joins: reachable from them, and no way back from it to a join
        after = after and x.id in back and not any(j.id in fwd for j in joins)
    ck.require(after,
               "C11.3", "%s: storage cleared after the joins" % q.fn(fs), "ordered", "the thread list / queue is cleared before the workers have been joined", q.loc(fs, clears[0]))
    fst = prog.func(TP, "ThreadPool.start")
    gst = cfg_of(fst)
    dst = dominators(gst)
    clr = [n for n in gst.live_nodes() for c in node_calls(n) if dump(c.func) == "self._done_event.clear"]
    eff = clr + [n for n in gst.live_nodes() for c in node_calls(n) if dump(c.func) == "self.__start_thread"]
    # everything start() does happens on the "was stopped" edge of the flag test (early return or enclosing if)
    gated = bool(eff) and all(any(gst.nodes[i].kind == "branch" and dump(gst.nodes[i].test) == "self._done_event.is_set()" and gst.nodes[i].polarity
                                  for i in dst[n.id]) for n in eff)
    ck.require(gated and len(clr) == 1,
               "C11.3", "%s: no-op unless stopped, then clears the flag" % q.fn(fst), "guarded", "start() is not idempotent on the stop flag", q.loc(fst, fst.node))
    fc = prog.func(TP, "ThreadPool.clear")
    gc = cfg_of(fc)
    for n in gc.live_nodes():
        for c in node_calls(n):
            if dump(c.func) == "self.join":
                ck.require("__lock" not in cl.held(fc, n), "C11.3", "%s: waits for running tasks outside the pool lock" % q.fn(fc), "join() without the lock",
                           "clear() waits for the running tasks while holding the pool lock: a running task that enqueues (needs the lock) deadlocks with it", q.loc(fc, n))
    ck.floor("C11.3", 7)

    # ---- C11.7 no unbounded queue wait in stop() / clear() --------------------------------------------------------------
    n7 = 0
    from vlib.locks import queue_call_bounds as _qcb
    for f7 in (fs, fc):
        g7 = cfg_of(f7)
        for n in g7.live_nodes():
            for c in node_calls(n):
                if dump(c.func) in ("self._queue.get", "self._queue.put"):
                    b7, _t7 = _qcb(c)
                    if isinstance(b7, ast.Constant) and b7.value is False:
                        n7 += 1
                        ck.ok("C11.7", "%s: `%s` is bounded" % (q.fn(f7), dump(c.func)), "non-blocking form (block=False)", q.loc(f7, n))
        for (n, c, kind) in cl.blocking_calls(f7):
            if not kind.startswith(("Queue.put", "Queue.get")):
                continue
            n7 += 1
            ck.require("no timeout" not in kind, "C11.7", "%s: `%s` is bounded" % (q.fn(f7), kind.split(" ")[0]), "non-blocking or with a timeout",
                       "`%s` can wait without bound (block argument `%s`, no timeout): with a full queue stop() never returns%s" % (
                           dump(c)[:70], dump(c.args[1]) if len(c.args) > 1 else "default True",
                           ", and it waits while holding the pool lock the workers need to make room" if "__lock" in cl.held(f7, n) else ""),
                       q.loc(f7, n))
    for n in gc.live_nodes():
        for c in node_calls(n):
            if dump(c.func) in ("self._queue.get_nowait", "self._queue.put_nowait"):
                n7 += 1
                ck.ok("C11.7", "%s: `%s` is bounded" % (q.fn(fc), dump(c.func)), "non-blocking form", q.loc(fc, n))
    ck.floor("C11.7", 2)

    # ---- C11.4 / C11.5 / C11.6: shared clauses ---------------------------------------------------------------
    from rules import c09, c10
    common.import_rules(ck, c10, {"C10.7": "C11.4", "C10.7b": "C11.4", "C10.4": "C11.4"})      # (a restart runs start(): C10.4)
    common.import_rules(ck, c09, {"C09.2": "C11.5", "C09.5": "C11.6", "C09.6": "C11.6"})
    ck.floor("C11.6", 3)
    ck.floor("C11.4", 6)
    ck.floor("C11.5", 3)
