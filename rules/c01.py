"""C01 End-to-end call transparency across versions, transports and call styles."""
import ast
from vlib.model import AnalysisError, dump, kwarg, call_name
from vlib.cfg import cfg_of, node_calls, node_exprs
from vlib.flow import dominators, postdominators, NORMAL, Explorer, states_at, reachable_avoiding
from vlib import prov, q, shape, spec
from rules import common
from rules.common import SRV, DISP

META = {
    "explanation": (
        "Decides the integrity of the call pipeline (spec table A.9), each hop by provenance: C01.1 the client method "
        "objects reject args+kwargs together and forward the one non-empty argument collection unchanged (sibling "
        "agreement _Method / MultiCallMethod); C01.2 _request/_request_notify hand params and method name to dumps "
        "unchanged with the proxy's config and version, and inside dump params reach Payload.request through only the "
        "declared normalisers (None -> [], jsonclass.dump under its gate); C01.3 in _dispatch the looked-up callable is "
        "called exactly once on every path that found it, as func(*params) for lists and func(**params) otherwise, "
        "with method/params taken from the request members; C01.4 the dispatch result reaches dump(..., is_response=True) "
        "unchanged, and the client returns <own reply>[\"result\"] unconditionally after the error check; C01.5 History "
        "records the very request text sent (before the exchange) and the very response text later parsed (after it), "
        "guarded only by `history is not None`; C01.6 a batch is the comma-join of job.request() in job-list order, sent "
        "through the proxy's _run_request, and results are indexed positionally; C01.7 method names travel unchanged: attribute "
        "access on a method object yields <name>.<attr> bound to the same sender (abstractly evaluated), the proxy / notifier / "
        "MultiCall create method objects / jobs for the requested name, a batch job is serialised from its own fields; C01.8 the "
        "HTTP handler hands the decoded body to the dispatcher and writes the dispatcher's reply; C01.9 (imported from C17.3) request "
        "and response bodies are decoded once from the joined reads on both sides, so a non-ASCII argument or result survives any chunking; "
        "C01.10 every constructor that receives a config (PooledJSONRPCServer, CGI handler, the three transports, ServerProxy's default "
        "transports) hands that very object to the package constructors it calls, so the class-translation switch of the caller's Config "
        "is the one in force for every server class and transport, and every normal path through the constructor of a server, CGI handler, "
        "transport, Unix connection or TransportError runs the constructor of each base that sets up state (frozen table BASE_INITS).; C01.11 (imported C05.2) the looked-up callable is called exactly where the lookup is known to have succeeded (`func is not None`, an identity test: a registered callable object that is falsy is still invoked) C01.12 (imported from C09.2 / C10.7) on a pooled server every accepted request is executed and marked done exactly once by a worker, and an idle worker only retires while the remaining idle workers still outnumber the queued requests (otherwise a queued request is left without a worker and never answered)."),
    "does_not_decide": "equality of values after JSON normalisation, Unicode/float fidelity of the backend, socket "
                       "behaviour of the three transports, exactly-once across retries inside xmlrpc.client.",
    "rules": {"C01.12": "imported C09.2, C10.7 (worker CFG exploration)",
              "C01.11": "imported C05.2", "C01.1": "CFG exploration + provenance", "C01.2": "provenance of arguments", "C01.3": "exploration with a call counter",
              "C01.4": "provenance + dominance", "C01.5": "dominance / post-dominance on normal paths", "C01.6": "provenance of the join operand", "C01.7": "shape interpreter + provenance", "C01.8": "provenance", "C01.9": "imported C17.3, C17.9",
              "C01.10": "provenance of the config argument at constructor-to-constructor call sites"},
    "assumptions": ["xmlrpc.client._Method stores its two constructor arguments as __send and __name"],
}


def check(ck):
    prog = ck.prog
    # ---- C01.1 argument forwarding, client ------------------------------------------------------
    for cls, send_is_store in (("_Method", False), ("MultiCallMethod", True)):
        fi = prog.func("jsonrpc", cls + ".__call__")
        g = cfg_of(fi)
        va = fi.node.args.vararg.arg if fi.node.args.vararg else None
        kw = fi.node.args.kwarg.arg if fi.node.args.kwarg else None
        if not va or not kw:
            raise AnalysisError("anchor vanished: *args/**kwargs of %s" % q.fn(fi))
        sinks = []    # (node, forwarded expr)
        for n in g.live_nodes():
            if send_is_store:
                if n.kind == "stmt" and isinstance(n.ast, ast.Assign) and any(dump(t) == "self.params" for t in n.ast.targets):
                    sinks.append((n, n.ast.value))
            else:
                for c in node_calls(n):
                    if isinstance(c.func, ast.Attribute) and dump(c.func.value) == "self" and len(c.args) == 2:
                        sinks.append((n, c.args[1]))
        if len(sinks) == 1 and isinstance(sinks[0][1], ast.Name):
            # the forwarded collection chosen in two branches (`params = args` / `params = kwargs`) and sent once: each choice
            # is examined where it is made
            ds_ = prov.rd_of(g).get(sinks[0][0].id, {}).get(sinks[0][1].id, frozenset())
            dn_ = [g.nodes[i] for i in ds_]
            if len(dn_) >= 2 and all(x.kind == "stmt" and isinstance(x.ast, ast.Assign) and len(x.ast.targets) == 1 and
                                     isinstance(x.ast.targets[0], ast.Name) for x in dn_):
                sinks = [(x, x.ast.value) for x in dn_]
        if len(sinks) == 1:
            # one site forwarding `args if args else kwargs` / `args or kwargs` (or the mirrored forms)
            n1_, e1_ = sinks[0]
            src = e1_
            if isinstance(src, ast.Name):
                defs_ = prov.rd_of(g).get(n1_.id, {}).get(src.id, ())
                dn_ = [g.nodes[i] for i in defs_]
                if len(dn_) == 1 and dn_[0].kind == "stmt" and isinstance(dn_[0].ast, ast.Assign):
                    src = dn_[0].ast.value
            pair = None
            if isinstance(src, ast.IfExp) and isinstance(src.test, ast.Name) and isinstance(src.body, ast.Name) and isinstance(src.orelse, ast.Name) \
                    and src.test.id == src.body.id:
                pair = (src.body.id, src.orelse.id)
            elif isinstance(src, ast.BoolOp) and isinstance(src.op, ast.Or) and len(src.values) == 2 and all(isinstance(v, ast.Name) for v in src.values):
                pair = (src.values[0].id, src.values[1].id)
            ck.require(pair is not None and set(pair) == set([va, kw]), "C01.1", "%s: forwards `%s`" % (q.fn(fi), dump(src)[:50]),
                       "the non-empty argument collection, else the other one",
                       "the call forwards `%s`: not `args if args else kwargs` (or an equivalent form)" % dump(src)[:60], q.loc(fi, n1_))
            raises = [n for n in g.live_nodes() if n.kind == "raise" and n.ast.exc is not None]      # (which exception is not the property's business)
            guard_ok = False
            dd_ = dominators(g)
            for rz in raises:
                tests = set(dump(g.nodes[i].test) for i in dd_[rz.id] if g.nodes[i].kind == "branch" and g.nodes[i].polarity)
                if tests == set([va, kw]):
                    guard_ok = True
            ck.require(guard_ok, "C01.1", "%s: raise ProtocolError for args+kwargs" % q.fn(fi), "present",
                       "mixing positional and keyword arguments is not rejected", q.loc(fi, fi.node))
            continue
        if len(sinks) < 2:
            raise AnalysisError("anchor vanished: forwarding sites of %s (found %d)" % (q.fn(fi), len(sinks)))

        def on_node(node, facts, data):
            return [(facts, data)]
        ex = Explorer(g)
        sink_ids = dict((n.id, e) for (n, e) in sinks)
        for st in ex.states:
            nid, facts, _d = st
            if nid not in sink_ids:
                continue
            fd = dict(facts)
            a_true, k_true = fd.get(va), fd.get(kw)
            t = prov.origin(g, g.nodes[nid], sink_ids[nid])
            if t[0] == "call" and t[1] in (("global", "list"), ("global", "tuple")) and len(t[2]) == 1 and t[2][0] == ("param", va) and not t[3]:
                t = ("param", va)       # list(args) / tuple(args): the same arguments (JSON makes a list of either)
            if t[0] == "call" and t[1] == ("global", "dict") and len(t[2]) == 1 and t[2][0] == ("param", kw) and not t[3]:
                t = ("param", kw)
            label = "%s: forwards %s when %s=%s %s=%s" % (q.fn(fi), prov.show(t), va, a_true, kw, k_true)
            if a_true is True and k_true is True:
                ck.bad("C01.1", label, "a call with both positional and keyword arguments is forwarded instead of rejected",
                       q.loc(fi, g.nodes[nid]), ex.describe_path(st))
            elif a_true is True:
                ck.require(t == ("param", va), "C01.1", label, "non-empty args forwarded unchanged",
                           "positional arguments are given but %s is sent" % prov.show(t), q.loc(fi, g.nodes[nid]), ex.describe_path(st))
            elif k_true is True:
                ck.require(t == ("param", kw), "C01.1", label, "non-empty kwargs forwarded unchanged",
                           "keyword arguments are given but %s is sent" % prov.show(t), q.loc(fi, g.nodes[nid]), ex.describe_path(st))
            elif a_true is False and k_true is None:
                ck.require(t == ("param", kw), "C01.1", label, "kwargs forwarded when args is empty",
                           "positional arguments are empty (keyword arguments may be given) but %s is sent: keyword arguments are dropped" % prov.show(t),
                           q.loc(fi, g.nodes[nid]), ex.describe_path(st))
            elif k_true is False and a_true is None:
                ck.require(t == ("param", va), "C01.1", label, "args forwarded when kwargs is empty",
                           "keyword arguments are empty (positional arguments may be given) but %s is sent: positional arguments are dropped" % prov.show(t),
                           q.loc(fi, g.nodes[nid]), ex.describe_path(st))
            else:
                ck.require(t in (("param", va), ("param", kw)), "C01.1", label, "an (empty) argument collection is forwarded",
                           "%s is sent instead of the caller's arguments" % prov.show(t), q.loc(fi, g.nodes[nid]), ex.describe_path(st))
        raises = [n for n in g.live_nodes() if n.kind == "raise" and n.ast.exc is not None]
        ck.require(bool(raises), "C01.1", "%s: raise ProtocolError for args+kwargs" % q.fn(fi), "present",
                   "mixing positional and keyword arguments is not rejected", q.loc(fi, fi.node))
        if not send_is_store:
            # the method name travels unchanged
            for n in g.live_nodes():
                for c in node_calls(n):
                    if isinstance(c.func, ast.Attribute) and dump(c.func.value) == "self" and len(c.args) == 2:
                        ck.require(dump(c.args[0]) == "self.__name" and dump(c.func) == "self.__send", "C01.1",
                                   "%s: %s(%s, ...)" % (q.fn(fi), dump(c.func), dump(c.args[0])), "self.__send(self.__name, ...)",
                                   "the call is not sent as self.__send(self.__name, <args>)", q.loc(fi, n))
    ck.floor("C01.1", 4)

    # ---- C01.7 method names: plain, dotted, notification, batch ---------------------------------------------
    K = shape.K
    fga = prog.func("jsonrpc", "_Method.__getattr__")
    for (cur, nxt, want) in (("a", "b", "a.b"), ("a.b", "c", "a.b.c"), ("x", "\u00e9t\u00e9", "x.\u00e9t\u00e9")):
        ev = shape.Evaluator(prog, "jsonrpc", lenient=True)
        send = shape.Sym("send", truthy=True)
        res = ev.run(fga, {"name": K(nxt)}, lambda: shape.Obj("_Method", {"_Method__send": send, "_Method__name": K(cur)}))
        okk = len(res) == 1 and res[0][1][0] == "return" and isinstance(res[0][1][1], shape.Opaque) and res[0][1][1].label == "_Method"
        if okk:
            a = res[0][1][1].attrs.get("__args__")
            okk = isinstance(a, shape.L) and len(a.elts) == 2 and a.elts[0] is send and a.elts[1] == K(want)
        ck.require(okk, "C01.7", "%s: %s -> .%s" % (q.fn(fga), cur, nxt), "_Method(self.__send, %r)" % want,
                   "attribute access .%s on the method object %r does not yield a method object for %r bound to the same sender" % (nxt, cur, want),
                   q.loc(fga, fga.node))
    for (cls, meth, sender) in (("ServerProxy", "__getattr__", "_request"), ("_Notify", "__getattr__", "_request")):
        fi = prog.func("jsonrpc", "%s.%s" % (cls, meth))
        g = cfg_of(fi)
        rets = [n for n in g.live_nodes() if n.kind == "return" and n.ast is not None and n.ast.value is not None]
        okk = False
        for rn in rets:
            t = prov.origin(g, rn, rn.ast.value)
            if t[0] == "call" and t[1] == ("global", "_Method") and len(t[2]) == 2 and t[2][0] == ("attr", ("param", "self"), sender) and t[2][1] == ("param", "name"):
                okk = True
        ck.require(okk, "C01.7", "%s: returns _Method(self.%s, name)" % (q.fn(fi), sender), "name forwarded unchanged",
                   "%s.%s does not return a method object for the requested name bound to self.%s" % (cls, meth, sender), q.loc(fi, fi.node))
    fnp = prog.func("jsonrpc", "ServerProxy._notify")
    gnp = cfg_of(fnp)
    okk = any(prov.origin(gnp, rn, rn.ast.value) == ("call", ("global", "_Notify"), (("attr", ("param", "self"), "_request_notify"),), ())
              for rn in gnp.live_nodes() if rn.kind == "return" and rn.ast is not None and rn.ast.value is not None)
    if not okk and any(isinstance(x_, ast.Call) and dump(x_) == "_Notify(self._request_notify)" for x_ in ast.walk(fnp.node)) and \
            any(isinstance(x_, ast.Subscript) and isinstance(x_.ctx, ast.Store) and "self" in dump(x_.value) for x_ in ast.walk(fnp.node)):
        # the notifier object is built as required but kept in a cache of the proxy: which object a later access returns is not followed
        raise AnalysisError("ServerProxy._notify caches the _Notify object it builds: not modelled")
    ck.require(okk, "C01.7", "%s: _Notify(self._request_notify)" % q.fn(fnp), "notifications use _request_notify",
               "proxy._notify is not bound to _request_notify", q.loc(fnp, fnp.node))
    for (cls, notify) in (("MultiCall", False), ("MultiCallNotify", True)):
        fi = prog.func("jsonrpc", cls + ".__getattr__")
        g = cfg_of(fi)
        mk = q.call_sites(prog, fi, lambda r, c: r == "class:jsonrpc.MultiCallMethod")
        if not mk and any(isinstance(c_.func, ast.Attribute) and not (isinstance(c_.func.value, ast.Name) and c_.func.value.id == "self")
                          for n_ in g.live_nodes() for c_ in node_calls(n_)):
            raise AnalysisError("anchor vanished: %s.__getattr__ creates its job through a method of another object: not modelled" % cls)
        okk = len(mk) == 1 and prov.origin(g, mk[0][0], mk[0][1].args[0]) == ("param", "name")
        nf = kwarg(mk[0][1], "notify", 1) if mk else None
        okk = okk and ((nf is not None and isinstance(nf, ast.Constant) and nf.value is True) if notify else (nf is None or (isinstance(nf, ast.Constant) and nf.value is False)))
        ck.require(okk, "C01.7", "%s: MultiCallMethod(name%s)" % (q.fn(fi), ", notify=True" if notify else ""), "job created for the requested name",
                   "%s.__getattr__ does not create the job for the requested name with notify=%s" % (cls, notify), q.loc(fi, fi.node))
    fmr = prog.func("jsonrpc", "MultiCallMethod.request")
    gmr = cfg_of(fmr)
    cs = q.call_sites(prog, fmr, lambda r, c: q.is_func(r, "jsonrpc.dumps"))
    okk = len(cs) == 1
    if okk:
        n, c = cs[0]
        okk = q.arg_origin(fmr, n, c, "params", 0) == ("attr", ("param", "self"), "params") and \
            q.arg_origin(fmr, n, c, "methodname", 1) == ("attr", ("param", "self"), "method") and \
            q.arg_origin(fmr, n, c, "notify", 6) == ("attr", ("param", "self"), "notify") and \
            q.arg_origin(fmr, n, c, "config", 7) == ("attr", ("param", "self"), "_config")
    ck.require(okk, "C01.7", "%s: dumps(self.params, self.method, notify=self.notify, config=self._config)" % q.fn(fmr), "job serialised from its own fields",
               "a batch job is not serialised from its own params / method / notify / config", q.loc(fmr, fmr.node))
    fmg = prog.func("jsonrpc", "MultiCallMethod.__getattr__")
    for (cur, nxt, want) in (("a", "b", "a.b"),):
        ev = shape.Evaluator(prog, "jsonrpc", lenient=True)
        holder = []

        def mk_():
            o = shape.Obj("MultiCallMethod", {"method": K(cur)})
            holder[:] = [o]
            return o
        res = ev.run(fmg, {"method": K(nxt)}, mk_)
        okk = len(res) == 1 and res[0][1][0] == "return" and res[0][1][1] is holder[0] and holder[0].attrs.get("method") == K(want)
        ck.require(okk, "C01.7", "%s: nested batch name %s.%s" % (q.fn(fmg), cur, nxt), "method becomes %r" % want,
                   "a dotted batch call does not accumulate the dotted name", q.loc(fmg, fmg.node))
    ck.floor("C01.7", 10)

    # ---- C01.8 server transport hand-off ------------------------------------------------------------------------
    fpost = prog.func(SRV, "SimpleJSONRPCRequestHandler.do_POST")
    gpo = cfg_of(fpost)
    dcs = [(n, c) for n in gpo.live_nodes() for c in node_calls(n) if call_name(c) == "_marshaled_dispatch"]
    if len(dcs) != 1:
        raise AnalysisError("anchor vanished: _marshaled_dispatch call in do_POST")
    n, c = dcs[0]
    t = prov.origin(gpo, n, c.args[0]) if c.args else None
    from_body = t is not None and prov.contains(t, lambda x: x[0] == "call" and x[1][0] == "attr" and x[1][2] == "join")
    ck.require(from_body, "C01.8", "%s: dispatch receives the decoded body" % q.fn(fpost), "data derived from the joined reads",
               "the dispatcher is given %s, not the received body" % (prov.show(t)[:80] if t else None), q.loc(fpost, n))
    # the body written once the dispatcher has been called (an earlier exit that rejects the HTTP request itself - no length, no
    # body read - writes its own text and is not a reply to a call)
    after = reachable_avoiding(gpo, n.id, set())
    wr = [(m, cc) for m in gpo.live_nodes() for cc in node_calls(m) if dump(cc.func) == "self.wfile.write" and m.id in after]
    okk = len(wr) >= 1
    for (wm, wc_) in wr:
        tw = prov.origin(gpo, wm, wc_.args[0]) if wc_.args else None
        inner = [x for x in prov.subterms(tw) if x[0] == "call" and x[1][0] == "attr" and x[1][2] in ("_marshaled_dispatch", "response")] if tw else []
        okk = okk and tw is not None and tw[0] == "call" and prov.show(tw[1]).endswith("to_bytes") and bool(inner)
    ck.require(okk, "C01.8", "%s: the reply written is the dispatcher's result" % q.fn(fpost), "to_bytes(<_marshaled_dispatch result | fault.response()>)",
               "the bytes written to the client are not the dispatcher's reply", q.loc(fpost, fpost.node))

    # the CGI handler: the request text goes to the dispatcher, the encoded reply is written after a header block closed by
    # an empty line
    fcgi = prog.func(SRV, "CGIJSONRPCRequestHandler.handle_jsonrpc")
    gcg = cfg_of(fcgi)
    dcg = [(n, c) for n in gcg.live_nodes() for c in node_calls(n) if call_name(c) == "_marshaled_dispatch"]
    def _req_text(a_):
        # the parameter itself, or its decoding when it was handed over as bytes
        pr_ = ("param", fcgi.params[1])
        return a_ == pr_ or (a_[0] == "call" and a_[1][0] == "attr" and a_[1][1] == pr_ and a_[1][2] == "decode") or \
            (a_[0] == "call" and prov.show(a_[1]).endswith("from_bytes") and a_[2] and a_[2][0] == pr_)
    okk = len(dcg) == 1 and dcg[0][1].args and all(_req_text(a_) for a_ in prov.value_alts(prov.origin(gcg, dcg[0][0], dcg[0][1].args[0]))) and \
        ("param", fcgi.params[1]) in prov.value_alts(prov.origin(gcg, dcg[0][0], dcg[0][1].args[0]))
    ck.require(okk, "C01.8", "%s: dispatch receives the request text" % q.fn(fcgi), "self._marshaled_dispatch(request_text)",
               "the CGI handler does not hand the request text to the dispatcher", q.loc(fcgi, fcgi.node))
    wcg = [(m, cc) for m in gcg.live_nodes() for cc in node_calls(m) if call_name(cc) == "write" and cc.args]
    if not any(isinstance(cc.func, ast.Name) and cc.func.id == "print" for m in gcg.live_nodes() for cc in node_calls(m)):
        # the rules below know the header block as print() lines closed by an empty print(); another way of emitting it is refused
        raise AnalysisError("the CGI handler does not emit its header block with print(): shape not modelled (C01.8 / C17.1)")
    okk = len(wcg) == 1
    if okk:
        tw = prov.origin(gcg, wcg[0][0], wcg[0][1].args[0])
        okk = prov.contains(tw, lambda x: x[0] == "call" and x[1][0] == "attr" and x[1][2] == "_marshaled_dispatch") and \
            prov.contains(tw, lambda x: x[0] == "call" and x[1][0] == "attr" and x[1][2] == "encode")
    ck.require(okk, "C01.8", "%s: the reply written is the dispatcher's result, encoded" % q.fn(fcgi), "write(<_marshaled_dispatch result>.encode(...))",
               "the CGI handler does not write the encoded reply of the dispatcher", q.loc(fcgi, fcgi.node))
    blank = [m for m in gcg.live_nodes() for cc in node_calls(m) if isinstance(cc.func, ast.Name) and cc.func.id == "print" and not cc.args and not cc.keywords]
    heads = [m for m in gcg.live_nodes() for cc in node_calls(m) if isinstance(cc.func, ast.Name) and cc.func.id == "print" and cc.args]
    dom_cg = dominators(gcg)
    okk = len(blank) == 1 and bool(wcg) and blank[0].id in dom_cg[wcg[0][0].id] and all(h.id in dom_cg[blank[0].id] for h in heads) and len(heads) >= 2
    # the header lines go through the text layer of stdout, the body through its binary buffer: the text layer is flushed
    # after the empty line and before the body is written
    flushes = [m for m in gcg.live_nodes() for cc in node_calls(m) if dump(cc.func) == "sys.stdout.flush"]
    okf = bool(blank) and bool(wcg) and any(blank[0].id in dom_cg[f_.id] and f_.id in dom_cg[wcg[0][0].id] for f_ in flushes)
    ck.require(okf, "C01.8", "%s: stdout flushed between the header block and the body" % q.fn(fcgi), "print(); sys.stdout.flush(); writer.write(body)",
               "the text layer of stdout is not flushed after the empty line and before the body is written to the binary buffer: the body can "
               "reach the web server before (or inside) the header block", q.loc(fcgi, fcgi.node))
    ck.require(okk, "C01.8", "%s: headers, empty line, body" % q.fn(fcgi), "print() between the header lines and the body",
               "the CGI reply is not <header lines> <empty line> <body>: the web server cannot separate the headers from the JSON text", q.loc(fcgi, fcgi.node))

    # ---- C01.2 request construction ---------------------------------------------------------------
    for meth, notify in (("ServerProxy._request", False), ("ServerProxy._request_notify", True)):
        fi = prog.func("jsonrpc", meth)
        g = cfg_of(fi)
        cs = q.call_sites(prog, fi, lambda r, c: q.is_func(r, "jsonrpc.dumps"))
        if len(cs) != 1:
            raise AnalysisError("anchor vanished: dumps(...) call in %s" % q.fn(fi))
        n, c = cs[0]
        want = {"params": ("param", "params"), "methodname": ("param", "methodname"), "rpcid": ("param", "rpcid"),
                "version": ("attr", ("param", "self"), "__version"), "config": ("attr", ("param", "self"), "_config")}
        pos = {"params": 0, "methodname": 1, "rpcid": 4, "version": 5, "config": 7}
        for name, w in want.items():
            t = q.arg_origin(fi, n, c, name, pos[name])
            ck.require(t == w, "C01.2", "%s: dumps(%s=...)" % (q.fn(fi), name), "passes %s" % prov.show(w),
                       "dumps receives %s as `%s` (expected %s)" % (prov.show(t) if t else "nothing", name, prov.show(w)), q.loc(fi, n))
    # what the proxy stores as its version / configuration: the caller's version, else the configuration's
    fpi = prog.func("jsonrpc", "ServerProxy.__init__")
    gpi = cfg_of(fpi)
    vst = [n for n in gpi.live_nodes() if n.kind == "stmt" and isinstance(n.ast, ast.Assign) and any(dump(t_) == "self.__version" for t_ in n.ast.targets)]
    if len(vst) != 1:
        raise AnalysisError("anchor vanished: store of self.__version in ServerProxy.__init__ (found %d)" % len(vst))
    tv = prov.origin(gpi, vst[0], vst[0].ast.value)
    ck.require(tv == ("or", (("param", "version"), ("attr", ("param", "config"), "version"))), "C01.2",
               "%s: self.__version" % q.fn(fpi), "version or config.version",
               "the proxy stores %s as its protocol version: a version given to the proxy is not the one used for its requests (or the "
               "configuration's is not the default)" % prov.show(tv), q.loc(fpi, vst[0]))
    fd = prog.func("jsonrpc", "dump")
    gd = cfg_of(fd)
    dd = dominators(gd)
    for n in gd.live_nodes():
        for c in node_calls(n):
            if isinstance(c.func, ast.Attribute) and c.func.attr in ("request", "notify", "response") and dump(c.func.value) == "payload":
                pe = c.args[-1] if c.args else None
                t = prov.origin(gd, n, pe)
                alts = prov.alts(t)
                allowed = True
                for a in alts:
                    if a == ("param", "params") or a == ("tuple", ()):
                        continue
                    if a[0] == "call" and prov.show(a[1]).endswith("jsonclass.dump") and a[2] and \
                            prov.alts(a[2][0]) <= set([("param", "params"), ("tuple", ())]):
                        continue
                    if a[0] == "call" and a[1] in (("global", "list"), ("global", "tuple")) and len(a[2]) == 1 and not a[3] and \
                            prov.alts(a[2][0]) <= set([("param", "params"), ("tuple", ())]):
                        continue        # list(params): the JSON form of a tuple of arguments
                    allowed = False
                ck.require(allowed, "C01.2", "%s: payload.%s(..., %s)" % (q.fn(fd), c.func.attr, dump(pe)),
                           "params reach the payload through the declared normalisers only",
                           "the payload receives %s: the caller's params/result are altered on the way" % prov.show(t), q.loc(fd, n))
                if c.func.attr in ("request", "notify"):
                    tm = prov.origin(gd, n, c.args[0])
                    ck.require(tm == ("param", "methodname"), "C01.2", "%s: payload.%s(methodname)" % (q.fn(fd), c.func.attr),
                               "method name unchanged", "the payload receives %s as method name" % prov.show(tm), q.loc(fd, n))
    # the None -> [] normaliser must be exactly `params is None`
    for n in gd.live_nodes():
        if n.kind == "stmt" and isinstance(n.ast, ast.Assign) and dump(n.ast.targets[0]) == "params" and \
                isinstance(n.ast.value, (ast.List, ast.Tuple)) and not n.ast.value.elts:
            guards = [gd.nodes[d] for d in dd[n.id] if gd.nodes[d].kind == "branch" and "params" in dump(gd.nodes[d].test)]
            okk = any(dump(b.test) == "params is None" and b.polarity for b in guards)
            ck.require(okk, "C01.2", "%s: params = [] normaliser" % q.fn(fd), "guarded by `params is None`",
                       "params are replaced by [] under a guard other than `params is None` (%s): falsy arguments such as 0, '' "
                       "or {} are silently dropped" % [dump(b.test) for b in guards], q.loc(fd, n))
    ck.floor("C01.2", 13)

    # ---- C01.3 server invocation ---------------------------------------------------------------------
    fdi = prog.func(SRV, DISP + "._dispatch")
    g = cfg_of(fdi)
    func_calls = {}
    invs = common.callable_invocations(prog)
    for (n, c, helper, hc) in invs:
        if helper is None:
            func_calls[n.id] = c
        else:
            func_calls[n.id] = c
            hg = cfg_of(helper)
            star = [a for a in hc.args if isinstance(a, ast.Starred)]
            dstar = [k for k in hc.keywords if k.arg is None]
            hparams = [p for p in helper.params if p != "self"]
            passed = [prov.origin(hg, [x for x in hg.live_nodes() if hc in node_calls(x)][0], (star[0].value if star else dstar[0].value))] if (star or dstar) else []
            okh = len(hc.args) + len(hc.keywords) == 1 and passed and passed[0][0] == "param" and passed[0][1] in hparams
            ck.require(bool(okh), "C01.3", "%s: `%s` in helper %s" % (q.fn(fdi), dump(hc)[:50], helper.qual), "func(*params) / func(**params) unchanged",
                       "the registered callable is invoked through %s as `%s`: the request's params are not passed on unchanged" % (helper.qual, dump(hc)[:70]),
                       q.loc(helper, hc))
    if len(func_calls) < 2:
        raise AnalysisError("anchor vanished: calls of the looked-up callable in _dispatch")
    dd2 = dominators(g)
    direct_ids = set(n.id for (n, c, helper, hc) in invs if helper is None)
    for nid, c in func_calls.items():
        if nid not in direct_ids:
            continue
        n = g.nodes[nid]
        star = [a for a in c.args if isinstance(a, ast.Starred)]
        dstar = [k for k in c.keywords if k.arg is None]
        is_list_branch = None
        for d in dd2[nid]:
            b = g.nodes[d]
            if b.kind == "branch" and isinstance(b.test, ast.Call) and dump(b.test.func) == "isinstance" \
                    and dump(b.test.args[0]) == "params":
                ts = prog.typeset(fdi.module, b.test.args[1])
                if ts == {"list"} or ts == {"list", "tuple"}:
                    is_list_branch = b.polarity
                elif ts == {"dict"}:
                    is_list_branch = not b.polarity
        if is_list_branch is None:
            ck.bad("C01.3", "%s: `%s`" % (q.fn(fdi), dump(c)), "the call is not selected by an isinstance test on params", q.loc(fdi, n))
            continue
        if is_list_branch:
            okk = len(star) == 1 and len(c.args) == 1 and not c.keywords and prov.origin(g, n, star[0].value) == ("param", "params")
            shape_s = "func(*params)"
        else:
            okk = len(dstar) == 1 and not c.args and len(c.keywords) == 1 and prov.origin(g, n, dstar[0].value) == ("param", "params")
            shape_s = "func(**params)"
        ck.require(okk, "C01.3", "%s: `%s` on the %s branch" % (q.fn(fdi), dump(c), "list" if is_list_branch else "mapping"),
                   shape_s, "the registered callable is invoked as `%s`, not as %s with the request's params" % (dump(c), shape_s),
                   q.loc(fdi, n))

    def on_node(node, facts, data):
        if node.id in func_calls:
            data = min(data + 1, 3)
        return [(facts, data)]
    ex = Explorer(g, on_node=on_node, init_data=0)
    found_branch = [n for n in g.live_nodes() if n.kind == "branch" and dump(n.test) in ("func is not None",) and n.polarity]
    seen = set()
    for st in states_at(ex, ("return",)):
        nid, facts, cnt = st
        fdct = dict(facts)
        found = fdct.get("func is not None")
        if found is None and "func is None" in fdct:
            found = not fdct["func is None"]
        if (nid, cnt, found) in seen:
            continue
        seen.add((nid, cnt, found))
        rn = g.nodes[nid]
        if found is True:
            ck.require(cnt == 1, "C01.3", "%s: `%s` after %d invocation(s) of the callable" % (q.fn(fdi), q.stmt_text(rn)[:40], cnt),
                       "exactly one invocation", "a path that found the callable returns after %d invocations of it" % cnt,
                       q.loc(fdi, rn), ex.describe_path(st))
        elif found is False:
            ck.require(cnt == 0, "C01.3", "%s: not-found path" % q.fn(fdi), "no invocation", "callable invoked on the not-found path",
                       q.loc(fdi, rn), ex.describe_path(st))
    # a callable registered through an instance is found: the instance is consulted exactly when one is registered, and dotted
    # names are resolved (third argument of resolve_dotted_attribute)
    rdas = [(n, c) for n in g.live_nodes() for c in node_calls(n)
            if isinstance(prog.resolve_call(fdi, c), str) and prog.resolve_call(fdi, c).endswith("resolve_dotted_attribute")]
    for (n, c) in rdas:
        gs_ = q.guards_of(g, n)
        inst = [(p_ if dump(t_) == "self.instance is not None" else (not p_)) for (t_, p_) in gs_
                if dump(t_) in ("self.instance is not None", "self.instance is None")]
        ck.require(bool(inst) and all(inst), "C01.3", "%s: the registered instance is consulted when there is one" % q.fn(fdi),
                   "lookup under `self.instance is not None`",
                   "the lookup of the method on the registered instance runs %s: methods of a registered instance are never found"
                   % ("on the path where no instance is registered" if inst else "without testing that an instance is registered"), q.loc(fdi, n))
        ad = kwarg(c, "allow_dotted_names", 2)
        ck.require(isinstance(ad, ast.Constant) and ad.value is True, "C01.3", "%s: dotted names resolved on the instance" % q.fn(fdi),
                   "allow_dotted_names=True", "resolve_dotted_attribute is called with allow_dotted_names=%s: a dotted method name (a.b) of the "
                   "registered instance is not resolved" % (dump(ad) if ad is not None else "its default (False)"), q.loc(fdi, n))
    ck.floor("C01.3", 5)
    fs = prog.func(SRV, DISP + "._marshaled_single_dispatch")
    gs = cfg_of(fs)
    for (n, c, r) in common.callees(prog, fs):
        if r.fq == fdi.fq:
            args = c.args[1:] if call_name(c) == "enqueue" else c.args
            for i, key in ((0, "method"), (1, "params")):
                t = prov.origin(gs, n, args[i]) if len(args) > i else None
                okk = t is not None and all(prov.member_of(a, q.is_param(fs.params[1]), key) for a in prov.alts(t))
                ck.require(okk, "C01.3", "%s: %s(...) argument %s" % (q.fn(fs), call_name(c), key), "request member %r" % key,
                           "_dispatch receives %s as %s" % (prov.show(t) if t else "nothing", key), q.loc(fs, n))

    # ---- C01.4 result path ------------------------------------------------------------------------------
    for (n, c) in q.call_sites(prog, fs, lambda r, c: q.is_func(r, "jsonrpc.dump")):
        t = q.arg_origin(fs, n, c, "params", 0)
        okk = t is not None and all(a[0] == "call" and (a[1] == ("param", "dispatch_method") or a[1] == ("attr", ("param", "self"), "_dispatch"))
                                    for a in prov.alts(t))
        ck.require(okk, "C01.4", "%s: dump(<dispatch result>, is_response=True)" % q.fn(fs), "result reaches dump unchanged",
                   "the value serialised as result is %s, not the value returned by the dispatch" % (prov.show(t) if t else "nothing"),
                   q.loc(fs, n))
    freq = prog.func("jsonrpc", "ServerProxy._request")
    gq = cfg_of(freq)
    dq = dominators(gq)
    for rn in [n for n in gq.live_nodes() if n.kind == "return"]:
        t = prov.origin(gq, rn, rn.ast.value) if rn.ast is not None and rn.ast.value is not None else ("const", None)
        okk = t[0] == "item" and t[2] == ("const", "result") and t[1][0] == "call" and t[1][1] == ("attr", ("param", "self"), "_run_request")
        ck.require(okk, "C01.4", "%s: `%s`" % (q.fn(freq), q.stmt_text(rn)), "returns <own reply>['result']",
                   "the proxy call returns %s instead of the result member of its own reply (falsy results must be returned as they are)"
                   % prov.show(t), q.loc(freq, rn))
        guards = [gq.nodes[d] for d in dq[rn.id] if gq.nodes[d].kind == "branch"]

        def _reads_result(e_):
            # a test that looks at the value of the result member (its truthiness, its type ...) makes some results unreturnable; a
            # test of the reply's shape (`isinstance(reply, dict)`, `"result" in reply`) does not - every other exit is held to the
            # same return rule above, or raises
            for x_ in ast.walk(e_):
                if isinstance(x_, ast.Subscript) and isinstance(x_.slice, ast.Constant) and x_.slice.value == "result":
                    return True
                if isinstance(x_, ast.Call) and isinstance(x_.func, ast.Attribute) and x_.func.attr in ("get", "pop", "setdefault") and x_.args and \
                        isinstance(x_.args[0], ast.Constant) and x_.args[0].value == "result":
                    return True
                if isinstance(x_, ast.Name) and any(a_[0] == "item" and a_[2] == ("const", "result") for a_ in prov.value_alts(prov.origin(gq, rn, x_))):
                    return True
            return False
        guards = [b for b in guards if _reads_result(b.test)]
        ck.require(not guards, "C01.4", "%s: return is unconditional" % q.fn(freq), "no guard on the result",
                   "the result is returned only under `%s`" % [dump(b.test) for b in guards], q.loc(freq, rn))
    # the accessor of one batch result: the package function MultiCallIterator.__getitem__ hands self.results[i] to
    # (or __getitem__ itself when it reads the member directly)
    fgi = prog.func("jsonrpc", "MultiCallIterator.__getitem__")
    acc = [r for (_n, _c, r) in common.callees(prog, fgi) if r.fq != "jsonrpc.check_for_errors"]
    fit = acc[0] if acc else fgi
    git = cfg_of(fit)
    item_param = [p for p in fit.params if p not in ("self", "cls")][:1]
    for rn in [n for n in git.live_nodes() if n.kind == "return"]:
        t = prov.origin(git, rn, rn.ast.value) if rn.ast is not None and rn.ast.value is not None else ("const", None)
        if fit is fgi:
            okk = t[0] == "item" and t[2] == ("const", "result") and t[1][0] == "item" and t[1][1] == ("attr", ("param", "self"), "results")
        else:
            okk = bool(item_param) and t == ("item", ("param", item_param[0]), ("const", "result"))
        ck.require(okk, "C01.4", "%s: return" % q.fn(fit), "item['result']",
                   "a batch result is returned as %s" % prov.show(t), q.loc(fit, rn))
    ck.floor("C01.4", 4)

    # ---- C01.5 history ----------------------------------------------------------------------------------
    frun = prog.func("jsonrpc", "ServerProxy._run_request")
    gr = cfg_of(frun)
    dr = dominators(gr)
    treq = [(n, c) for n in gr.live_nodes() for c in node_calls(n) if call_name(c) == "request" and isinstance(c.func, ast.Attribute)
            and "transport" in dump(c.func.value)]
    if len(treq) != 1:
        raise AnalysisError("anchor vanished: transport.request call in _run_request")
    tn, tc = treq[0]
    sent = prov.origin(gr, tn, tc.args[2]) if len(tc.args) > 2 else None
    addq = [(n, c) for n in gr.live_nodes() for c in node_calls(n) if call_name(c) == "add_request"]
    addr = [(n, c) for n in gr.live_nodes() for c in node_calls(n) if call_name(c) == "add_response"]
    ck.require(len(addq) == 1 and len(addr) == 1, "C01.5", "%s: history calls" % q.fn(frun), "one add_request, one add_response",
               "history is not recorded once per exchange (%d add_request, %d add_response)" % (len(addq), len(addr)), q.loc(frun, frun.node))
    pd = postdominators(gr, [gr.return_exit.id], NORMAL)
    for (n, c) in addq:
        t = prov.origin(gr, n, c.args[0]) if c.args else None
        ck.require(t == sent and t == ("param", "request"), "C01.5", "%s: add_request(%s)" % (q.fn(frun), dump(c.args[0]) if c.args else ""),
                   "records the very object sent", "History records %s but %s is sent" % (prov.show(t) if t else "nothing", prov.show(sent) if sent else "?"),
                   q.loc(frun, n))
        off = set(b.id for b in gr.live_nodes() if b.kind == "branch" and dump(b.test) == "self.__history is not None" and not b.polarity)
        ck.require(tn.id not in reachable_avoiding(gr, gr.entry.id, off | set([n.id])), "C01.5",
                   "%s: add_request before the exchange" % q.fn(frun), "every path to transport.request records the request (or has no history)",
                   "with a History attached, the request can be sent without having been recorded first", q.loc(frun, n))
        guards = [dump(gr.nodes[d].test) for d in dr[n.id] if gr.nodes[d].kind == "branch"]
        ck.require(guards == ["self.__history is not None"], "C01.5", "%s: add_request guard" % q.fn(frun), "only `history is not None`",
                   "recording the request is guarded by %s" % guards, q.loc(frun, n))
    loads_calls = q.call_sites(prog, frun, lambda r, c: q.is_func(r, "jsonrpc.loads"))
    parsed = prov.origin(gr, loads_calls[0][0], loads_calls[0][1].args[0]) if loads_calls and loads_calls[0][1].args else None
    for (n, c) in addr:
        t = prov.origin(gr, n, c.args[0]) if c.args else None
        okk = t is not None and t == parsed and t[0] == "call" and t[1][0] == "attr" and t[1][2] == "request"
        ck.require(okk, "C01.5", "%s: add_response(%s)" % (q.fn(frun), dump(c.args[0]) if c.args else ""),
                   "records the very text later parsed", "History records %s but %s is parsed" % (prov.show(t) if t else "nothing", prov.show(parsed) if parsed else "?"),
                   q.loc(frun, n))
        ck.require(tn.id in dr[n.id], "C01.5", "%s: add_response after the exchange" % q.fn(frun), "dominated by transport.request",
                   "the response is recorded before the exchange", q.loc(frun, n))
        off = set(b.id for b in gr.live_nodes() if b.kind == "branch" and dump(b.test) == "self.__history is not None" and not b.polarity)
        after = [x.id for x in gr.live_nodes() if x.id in dr and tn.id in dr[x.id] and x.id != tn.id and
                 any(l != "exc" for (_b, l) in gr.succ[tn.id])]
        nxt = [b for (b, l) in gr.succ[tn.id] if l != "exc"]
        reach = set()
        for b in nxt:
            reach |= reachable_avoiding(gr, b, off | set([n.id]), NORMAL)
        ck.require(gr.return_exit.id not in reach, "C01.5", "%s: add_response on every normal path" % q.fn(frun),
                   "every normal path after the exchange records the response (or has no history)",
                   "with a History attached, a reply can be returned without having been recorded", q.loc(frun, n))
        guards = [dump(gr.nodes[d].test) for d in dr[n.id] if gr.nodes[d].kind == "branch"]
        ck.require(guards == ["self.__history is not None"], "C01.5", "%s: add_response guard" % q.fn(frun), "only `history is not None`",
                   "recording the response is guarded by %s" % guards, q.loc(frun, n))
    ck.floor("C01.5", 7)
    for hm, lst in (("add_request", "requests"), ("add_response", "responses")):
        fh = prog.func("history", "History." + hm)
        gh = cfg_of(fh)
        okk = False
        for n in gh.live_nodes():
            for c in node_calls(n):
                if dump(c.func) == "self.%s.append" % lst and c.args and prov.origin(gh, n, c.args[0]) == ("param", fh.params[1]):
                    okk = True
        ck.require(okk, "C01.5", "history.History.%s" % hm, "appends its argument to self.%s" % lst,
                   "History.%s does not append its argument to self.%s" % (hm, lst), q.loc(fh, fh.node))

    # ---- C01.6 batch ---------------------------------------------------------------------------------------
    fmc = prog.func("jsonrpc", "MultiCall._request")
    gm = cfg_of(fmc)
    joined = None
    for n in gm.live_nodes():
        for c in node_calls(n):
            ms_ = q.mapped_sequence(gm, n, c.args[0]) if isinstance(c.func, ast.Attribute) and c.func.attr == "join" and len(c.args) == 1 else None
            if ms_ is not None:
                it_, tg_, elt_ = ms_
                jl_ = ("attr", ("param", "self"), "_job_list")
                ti_ = prov.origin(gm, n, it_)
                # (the job list itself, or a copy of all of it taken just before - `self._job_list[:]`, list(self._job_list))
                whole = ti_ == jl_ or (ti_[0] == "call" and ti_[1] in (("global", "list"), ("global", "tuple")) and ti_[2] == (jl_,)) or \
                    (isinstance(it_, ast.Name) and any(isinstance(st_, ast.Assign) and any(isinstance(t_, ast.Name) and t_.id == it_.id for t_ in st_.targets) and
                                                       dump(st_.value) in ("self._job_list[:]", "list(self._job_list)", "tuple(self._job_list)")
                                                       for st_ in ast.walk(fmc.node)) and
                     sum(1 for st_ in ast.walk(fmc.node) if isinstance(st_, ast.Assign) and any(isinstance(t_, ast.Name) and t_.id == it_.id for t_ in st_.targets)) == 1)
                okk = whole and \
                    isinstance(elt_, ast.Call) and dump(elt_.func) == "%s.request" % dump(tg_) and not elt_.args and \
                    isinstance(c.func.value, ast.Constant) and c.func.value.value == ","
                joined = n
                ck.require(okk, "C01.6", "%s: `%s`" % (q.fn(fmc), dump(c)[:70]), "','.join(job.request() for job in self._job_list)",
                           "the batch body is not the comma-join of every job's request in job-list order: `%s`" % dump(c)[:90], q.loc(fmc, n))
    if joined is None:
        raise AnalysisError("anchor vanished: the join of job requests in MultiCall._request")
    runs = [(n, c) for n in gm.live_nodes() for c in node_calls(n) if call_name(c) == "_run_request"]
    ck.require(len(runs) == 1 and dump(runs[0][1].func.value) == "self._server", "C01.6", "%s: sent through the proxy" % q.fn(fmc),
               "self._server._run_request(body)", "the batch is not sent through the proxy's _run_request", q.loc(fmc, fmc.node))
    # every non-empty batch is sent: the guards of the exchange only exclude the empty job list
    import operator as _op
    OPS_ = {ast.Lt: _op.lt, ast.LtE: _op.le, ast.Gt: _op.gt, ast.GtE: _op.ge, ast.Eq: _op.eq, ast.NotEq: _op.ne}
    for (rn0, _c0) in runs[:1]:
        for (t_, pol_) in q.guards_of(gm, rn0):
            verdicts = None
            if isinstance(t_, ast.Compare) and len(t_.ops) == 1 and type(t_.ops[0]) in OPS_:
                l_, r_ = t_.left, t_.comparators[0]
                f_ = OPS_[type(t_.ops[0])]
                if dump(l_) == "len(self._job_list)" and isinstance(r_, ast.Constant) and isinstance(r_.value, int):
                    verdicts = [f_(k_, r_.value) == pol_ for k_ in (1, 2, 7)]
                elif dump(r_) == "len(self._job_list)" and isinstance(l_, ast.Constant) and isinstance(l_.value, int):
                    verdicts = [f_(l_.value, k_) == pol_ for k_ in (1, 2, 7)]
            elif dump(t_) in ("self._job_list", "len(self._job_list)"):
                verdicts = [pol_ is True]
            if verdicts is None:
                raise AnalysisError("the guard `%s` of the batch exchange is not a test of the job list's size: not modelled" % dump(t_))
            ck.require(all(verdicts), "C01.6", "%s: guard `%s` lets every non-empty batch through" % (q.fn(fmc), dump(t_)), "excludes the empty job list only",
                       "the batch is sent only when `%s` is %s, which fails for some non-empty job lists (1, 2 or 7 jobs): those calls are "
                       "silently not made" % (dump(t_), pol_), q.loc(fmc, rn0))
    dels = [n for n in gm.live_nodes() if n.kind == "stmt" and isinstance(n.ast, ast.Delete) and "_job_list" in dump(n.ast)]
    pdm = postdominators(gm, [gm.return_exit.id], NORMAL)
    if runs:
        rn_ = runs[0][0]
        # cleared on every normal path that sends the batch - after the exchange, or before it once the body has been built from
        # the jobs (clearing before the body is built would send nothing)
        domm = dominators(gm)
        copies_ = [m_ for m_ in gm.live_nodes() if m_.kind == "stmt" and isinstance(m_.ast, ast.Assign) and
                   dump(m_.ast.value) in ("self._job_list[:]", "list(self._job_list)", "tuple(self._job_list)")]
        okk = any(d.id in pdm[rn_.id] for d in dels) or any(d.id in domm[rn_.id] and joined.id in domm[d.id] for d in dels) or \
            any(d.id in domm[rn_.id] and any(cp_.id in domm[d.id] for cp_ in copies_) for d in dels)      # (or once a copy of the jobs was taken)
        ck.require(okk, "C01.6", "%s: job list cleared after the exchange" % q.fn(fmc), "`del self._job_list[:]` post-dominates the exchange",
                   "after a batch was sent there is a normal path on which the job list is not cleared: re-using the MultiCall "
                   "re-sends (and re-executes) the previous calls", q.loc(fmc, rn_))
    for meth in ("__getitem__", "__iter__"):
        fi = prog.func("jsonrpc", "MultiCallIterator." + meth)
        src = dump(fi.node)
        okk = "self.results" in src and "sorted" not in src and "reversed" not in src
        ck.require(okk, "C01.6", "%s: positional access to self.results" % q.fn(fi), "results indexed in reply order",
                   "batch results are not accessed positionally", q.loc(fi, fi.node))
    fa = prog.func("jsonrpc", "MultiCall.__getattr__")
    okk = any(call_name(c) == "append" and dump(c.func.value) == "self._job_list" for c in ast.walk(fa.node) if isinstance(c, ast.Call))
    ck.require(okk, "C01.6", "%s: jobs appended" % q.fn(fa), "append keeps submission order", "jobs are not appended to the job list", q.loc(fa, fa.node))
    ck.floor("C01.6", 6)

    # ---- C01.9 body reassembly on both sides (shared with C17.3) ---------------------------------------------------------
    from rules import c17
    common.import_rules(ck, c17, {"C17.3": "C01.9", "C17.9": "C01.9"})      # (and the request line: C17.9)
    from rules import c02 as _c02b
    common.import_rules(ck, _c02b, {"C02.6": "C01.9"})                       # (the backend emits ASCII only: every reply can be encoded and sent)
    ck.floor("C01.9", 11)

    # ---- C01.10 the caller's Config reaches every layer ---------------------------------------------------------------------
    common.check_config_forwarding(ck, "C01.10")
    common.check_base_constructors(ck, "C01.10")
    ck.floor("C01.10", 20)

    # ---- C01.11 the found callable is invoked (shared with C05.2) -----------------------------------------------------
    from rules import c05 as _c05
    common.import_rules(ck, _c05, {"C05.2": "C01.11", "C05.6": "C01.11"})      # (C05.6: every call the client can emit is accepted as a valid request)
    from rules import c14 as _c14q
    common.import_rules(ck, _c14q, {"C14.1": "C01.11"})
    ck.floor("C01.11", 2)

    # ---- C01.12 the request pool executes every accepted request (shared with C09.2 / C10.7) -----------------------------
    from rules import c09 as _c09p, c10 as _c10p, common as _cmp
    _cmp.import_rules(ck, _c09p, {"C09.2": "C01.12"})
    _cmp.import_rules(ck, _c10p, {"C10.7": "C01.12", "C10.3": "C01.12", "C10.7b": "C01.12"})
    ck.floor("C01.12", 6)
