"""C18 Custom headers compose by recency and are restored after a block."""
import ast
from vlib.model import AnalysisError, dump, kwarg, call_name
from vlib.cfg import cfg_of, node_calls, node_exprs
from vlib.flow import dominators, reachable_avoiding
from vlib import prov, q, shape, spec

META = {
    "explanation": (
        "Decides: C18.1 in _additional_headers the pop of the pushed dictionary is reached on every exit after the push, "
        "including an exception thrown into the generator at the yield (no path from the push to a return/raise exit avoids "
        "pop_headers(headers)); C18.2/C18.3/C18.4 abstract evaluation of emit_additional_headers and send_content over "
        "header stacks (mixed letter case, non-string values, protected names, URL-credential headers, User-Agent present or "
        "absent): each pushed name is emitted once, lower-cased, with str() of the value of the most recently pushed "
        "dictionary defining it; Content-Length / Content-Type of the stack are never emitted and the fixed ones come first "
        "from the body length and the configuration; User-Agent falls back to the configured one only when absent; the "
        "protected set is exactly {content-length, content-type}; C18.5 push_headers appends, pop_headers removes the last "
        "element (`.pop()`), the constructor pushes its headers exactly once. C18.6 (imported from C19.1) any failure while the request and its headers are emitted drops the transport's cached connection (self.close(), unconditionally, in the catch-all handler around send_request / send_content): the connection object buffers the headers already put, and reusing it would send them with the next request."),
    "does_not_decide": "what the peer receives (http.client behaviour).",
    "rules": {"C18.6": "imported C19.1 (handler structure + dominance)",
              "C18.1": "reachability avoiding the pop (exception edge at the yield included)", "C18.2-4": "shape interpreter (E7) over header stacks",
              "C18.5": "call scan of push/pop/__init__"},
    "assumptions": ["dict iteration is insertion-ordered; contextlib.contextmanager throws the block's exception at the yield"],
}


def rule_readonly_table(ck):
    """the table of header names a caller cannot override (also imported by C17.7)"""
    prog = ck.prog
    ro = prog.const("jsonrpc", _class_attr(prog, "TransportMixIn", "readonly_headers"))
    ck.require(set(ro) == spec.PROTECTED_HEADERS, "C18.3", "jsonrpc.TransportMixIn.readonly_headers", "= %s" % sorted(spec.PROTECTED_HEADERS),
               "the protected header names are %r; exactly Content-Length and Content-Type (lower case) must be protected, every other pushed "
               "name must be carried" % (ro,), "jsonrpclib/jsonrpc.py")


def _own_headers(t, pname):
    """the caller's header argument itself, or a normalisation built from it alone: `headers or {}`, dict(headers), {} for nothing"""
    def own(a):
        if a == ("param", pname) or a in (("other", "{}"), ("const", None)):
            return True
        if a[0] == "or":
            return all(own(x) for x in a[1])
        if a[0] == "call" and a[1] == ("global", "dict") and len(a[2]) <= 1 and not a[3]:
            return all(own(x) for x in a[2])
        return False
    alts_ = prov.value_alts(t)
    return bool(alts_) and all(own(a) for a in alts_) and any(prov.contains(a, lambda x: x == ("param", pname)) for a in alts_)


def check(ck):
    prog = ck.prog
    # ---- C18.1 push/pop pairing -----------------------------------------------------------------
    fa = prog.func("jsonrpc", "ServerProxy._additional_headers")
    g = cfg_of(fa)
    push = [n for n in g.live_nodes() for c in node_calls(n) if call_name(c) == "push_headers"]
    pops = [n for n in g.live_nodes() for c in node_calls(n) if call_name(c) == "pop_headers"]
    ys = [n for n in g.live_nodes() if n.kind == "stmt" and isinstance(n.ast, ast.Expr) and isinstance(n.ast.value, ast.Yield)]
    if len(push) != 1 or not pops or len(ys) != 1:
        raise AnalysisError("anchor vanished: push / yield / pop in _additional_headers (%d/%d/%d)" % (len(push), len(ys), len(pops)))
    ck.require(ys[0].raises, "C18.1", "%s: the yield is a raising point" % q.fn(fa), "exception edge at the yield", "internal: yield not modelled as raising", q.loc(fa, ys[0]))
    starts = [b for (b, l) in g.succ[push[0].id] if l != "exc"]
    reach = set()
    for b in starts:
        reach |= reachable_avoiding(g, b, set(p.id for p in pops))
    leaks = [x for x in (g.return_exit.id, g.raise_exit.id) if x in reach]
    ck.require(not leaks, "C18.1", "%s: pop_headers on every exit after the push" % q.fn(fa), "normal and exceptional exits pass the pop",
               "after push_headers there is a path to %s that does not pop the pushed dictionary: when the with-block raises, its headers "
               "stay in force for all later requests" % ("the exceptional exit" if g.raise_exit.id in leaks else "a return"), q.loc(fa, push[0]))
    terms_pp = []
    rd_pp = prov.rd_of(g)
    for n in push + pops:
        for c in node_calls(n):
            if call_name(c) in ("push_headers", "pop_headers"):
                t = prov.origin(g, n, c.args[0]) if c.args else None
                # the same *object*: one variable with one reaching definition at both calls (an expression such as `headers or {}`
                # evaluated once for the push and once for the pop makes two dictionaries when the argument is empty)
                a0_ = c.args[0] if c.args else None
                terms_pp.append((t, a0_.id, tuple(sorted(rd_pp.get(n.id, {}).get(a0_.id, ())))) if isinstance(a0_, ast.Name) else (t, id(c)))
                ck.require(t is not None and _own_headers(t, "headers"), "C18.1", "%s: %s(headers)" % (q.fn(fa), call_name(c)), "the caller's dictionary",
                           "%s is applied to %s" % (call_name(c), prov.show(t) if t else "nothing"), q.loc(fa, n))
    # what is popped is what was pushed (the same value, however the caller's argument was normalised before)
    ck.require(len(set(terms_pp)) == 1, "C18.1", "%s: the pop names the pushed dictionary" % q.fn(fa), "same value",
               "push_headers and pop_headers are not applied to the same object (%s): an argument expression evaluated once per call gives "
               "two dictionaries" % [prov.show(t_[0])[:40] if t_[0] else None for t_ in terms_pp], q.loc(fa, fa.node))
    ck.require(dump(ys[0].ast.value.value) == "self", "C18.1", "%s: yields the proxy" % q.fn(fa), "yield self", "the block does not yield the proxy", q.loc(fa, ys[0]))

    # ---- C18.2 - C18.4 composition truth table ------------------------------------------------------------
    fe = prog.func("jsonrpc", "TransportMixIn.emit_additional_headers")
    fsend = prog.func("jsonrpc", "TransportMixIn.send_content")
    K, D, L = shape.K, shape.D, shape.L
    stacks = [
        ("empty", [], []),
        ("one level", [], [{"X-A": "1"}]),
        ("case override 3 levels", [], [{"x-test": "a"}, {"X-Test": "b"}, {"x-test": "c"}]),
        ("older level keeps other names", [], [{"X-A": "1", "x-b": "1"}, {"x-a": "2"}, {"X-B": 3}]),
        ("protected names", [], [{"Content-Length": "9", "content-type": "text/plain", "CONTENT-TYPE": "x"}, {"X-Ok": "y"}]),
        ("url credentials overridden by a pushed header", [("Authorization", "Basic url")], [{}, {"authorization": "Basic pushed"}]),
        ("url credentials kept", [("Authorization", "Basic url")], [{"X-A": "1"}]),
        ("user agent pushed", [], [{"User-Agent": "mine"}]),
        ("non-string values", [], [{"X-N": 5, "X-F": 1.5, "X-None": None}]),
        ("transfer-encoding is not protected", [], [{"Transfer-Encoding": "chunked"}]),
        ("same dict pushed twice around another", [], [{"X-M": "fast"}, {"X-M": "safe"}, {"X-M": "fast"}]),
    ]
    if ck.tier == "thorough":
        # exhaustive small universe: every stack of up to two dictionaries with at most one entry each, plus every
        # three-level stack over one header name in three letter cases, with and without URL credentials
        names = ["X-A", "x-a", "X-B", "Content-Type", "content-length", "User-Agent", "user-agent", "Authorization"]
        values = ["1", 2, None]
        singles = [{}] + [{n_: v_} for n_ in names for v_ in values]
        gen = []
        for d1 in singles:
            gen.append(("gen %r" % (d1,), [], [d1]))
            for d2 in singles:
                gen.append(("gen %r %r" % (d1, d2), [], [d1, d2]))
        for a_ in ("X-T", "x-t", "X-t"):
            for b_ in ("X-T", "x-t", "X-t"):
                for c_ in ("X-T", "x-t", "X-t"):
                    gen.append(("gen3 %s/%s/%s" % (a_, b_, c_), [("Authorization", "Basic url")], [{a_: "1"}, {b_: "2"}, {c_: "3"}]))
        stacks = stacks + gen
        ck.stat("generated_header_stacks", len(gen))
    n2 = 0
    with ck.guard("C18.2 truth table of send_content"):
        for (label, extra, stack) in stacks:
            want = {}
            for (k, v) in extra:
                want[str(k).lower()] = str(v)
            for dct in stack:
                for k, v in dct.items():
                    want[str(k).lower()] = str(v)
            for p_ in spec.PROTECTED_HEADERS:
                want.pop(p_, None)
            conn = shape.Opaque("connection", {"putheader()": K(None), "endheaders()": K(None), "send()": K(None)})

            def mk():
                return shape.Obj("TransportMixIn", {
                    "_extra_headers": L([L([K(k), K(v)]) for (k, v) in extra]) if extra else K(None),
                    "additional_headers": L([D(dict((k, K(v)) for k, v in dct.items())) for dct in stack]),
                    "readonly_headers": K(prog.const("jsonrpc", _class_attr(prog, "TransportMixIn", "readonly_headers"))),
                    "_config": shape.Opaque("Config", {"content_type": K("application/json-rpc")}),
                    "user_agent": K("configured-agent")})
            ev = shape.Evaluator(prog, "jsonrpc", lenient=True, stubs={"utils.to_bytes": lambda *a, **k: a[0]})
            res = ev.run(fsend, {"connection": conn, "request_body": K(b'{"a": 1}')}, mk)
            # undecided tests (a logger's isEnabledFor, a new option of the transport ...) fork the evaluation: every outcome is judged
            per_run = [[c for c in cl_ if c[0] == "connection" and c[1] == "putheader"] for cl_ in getattr(ev, "calls_per_result", [])]
            n2 += 1
            problems = []
            if not res or len(per_run) != len(res):
                problems.append("send_content does not complete (%r)" % ((res[0][1][:2] if res else None),))
            for (r_one, calls) in zip(res, per_run):
              if r_one[1][0] != "return":
                problems.append("send_content does not complete (%r)" % (r_one[1][:2],))
                continue
              emitted = []
              for c in calls:
                a = c[2]
                if len(a) < 2:
                    emitted.append((a[0].v if a and isinstance(a[0], K) else repr(a), "<no value>"))
                    continue
                emitted.append((a[0].v if isinstance(a[0], K) else repr(a[0]), a[1].v if isinstance(a[1], K) else repr(a[1])))
              # the message's headers as a multiset, whatever their order (the property orders nothing): one Content-Type (the
              # configured one) and one Content-Length (the byte length), one header per pushed name with the most recent value, one
              # User-Agent (pushed, else configured), no name twice; further default headers the stack does not name are the library's own
              by_name = {}
              for (k, v) in emitted:
                  by_name.setdefault(str(k).lower(), []).append((k, v))
              for nm_, val_, what in (("content-type", "application/json-rpc", "Content-Type from the configuration"),
                                      ("content-length", "8", "Content-Length = byte length 8")):
                  got = [v for (_k, v) in by_name.get(nm_, [])]
                  if got != [val_]:
                      problems.append("%s is emitted as %r (required exactly once: %s)" % (nm_, got, what))
              ua = [v for (_k, v) in by_name.get("user-agent", [])]
              if "user-agent" in want:
                  if ua != [want["user-agent"]]:
                      problems.append("User-Agent emitted as %r although the stack defines %r" % (ua, want["user-agent"]))
              else:
                  if ua != ["configured-agent"]:
                      problems.append("without a pushed User-Agent the configured one must be sent exactly once, got %r" % (ua,))
              twice = sorted(k for k, vs in by_name.items() if len(vs) > 1)
              if twice:
                  problems.append("a header name is emitted twice: %r" % ([by_name[k] for k in twice],))
              for k_, v_ in want.items():
                  if k_ == "user-agent":
                      continue
                  got = [v for (_k, v) in by_name.get(k_, [])]
                  if got != [v_]:
                      problems.append("pushed header %s is emitted as %r, required %r" % (k_, got, v_))
            ck.require(not problems, "C18.2", "jsonrpc.TransportMixIn.send_content: stack %s" % label, "emits %r" % (sorted(want.items()),),
                       "for the header stack '%s' (%r + %r): %s" % (label, extra, stack, "; ".join(problems)), q.loc(fe, fe.node))
    ck.floor("C18.2", 10)
    # structural form of the same clause (normalise before merging; recency = stack order; unconditional overwrite)
    ge = cfg_of(fe)
    de = dominators(ge)
    merged = None
    stores = []
    for n in ge.live_nodes():
        if n.kind == "stmt" and isinstance(n.ast, ast.Assign) and isinstance(n.ast.targets[0], ast.Subscript) and isinstance(n.ast.targets[0].value, ast.Name):
            stores.append(n)
    upd = [(n, c) for n in ge.live_nodes() for c in node_calls(n) if call_name(c) in ("update", "setdefault") and isinstance(c.func.value, ast.Name)]
    for (n, c) in upd:
        ck.bad("C18.2s", "%s: `%s`" % (q.fn(fe), dump(c)[:50]), "a header dictionary is merged with its raw (not lower-cased) keys or without "
               "overwriting: a superseded value can win", q.loc(fe, n))
    STACK = ("attr", ("param", "self"), "additional_headers")
    stack_loops = []
    for n in ge.live_nodes():
        if n.kind == "for_body":
            to = prov.origin(ge, n, n.ast.iter)
            if prov.contains(to, lambda x: x == STACK) and not prov.contains(to, lambda x: x[0] == "elem"):
                stack_loops.append((n, to))      # (loops over one element of the stack are the inner merge loops)
    if not stack_loops:
        raise AnalysisError("anchor vanished: no loop of emit_additional_headers iterates the header stack")
    for (n, to) in stack_loops:
        alts_ = prov.value_alts(to)
        if alts_ == set([STACK]):
            ck.ok("C18.2s", "%s: merge walks the stack oldest to newest" % q.fn(fe), "for headers in self.additional_headers", q.loc(fe, n))
        elif any(a[0] == "item" or (a[0] == "call" and prov.show(a[1]) in ("reversed", "sorted")) for a in alts_):
            ck.bad("C18.2s", "%s: merge walks the stack oldest to newest" % q.fn(fe),
                   "the header stack is merged in the order `%s` (%s): a part of the stack, or the stack in another order than oldest to newest"
                   % (dump(n.ast.iter), prov.show(to)[:80]), q.loc(fe, n))
        else:
            raise AnalysisError("the loop over `%s` in emit_additional_headers walks the header stack through a construct that is not modelled (%s)"
                                % (dump(n.ast.iter), prov.show(to)[:60]))
    if len(stack_loops) != 1:
        ck.bad("C18.2s", "%s: one merge loop over the stack" % q.fn(fe), "the header stack is walked %d times" % len(stack_loops), q.loc(fe, fe.node))
    n_st = 0
    for n in stores:
        tk = prov.origin(ge, n, n.ast.targets[0].slice)
        lowered = prov.contains(tk, lambda x: x[0] == "call" and x[1][0] == "attr" and x[1][2] == "lower")
        from_stack = prov.contains(tk, lambda x: x[0] == "elem")
        if not from_stack:
            continue
        n_st += 1
        ck.require(lowered, "C18.2s", "%s: `%s`" % (q.fn(fe), q.stmt_text(n)[:50]), "key lower-cased at insertion",
                   "an entry of a pushed dictionary is merged under its raw key %s: names differing only in letter case are not superseded"
                   % prov.show(tk)[:60], q.loc(fe, n))
        guards = [ge.nodes[i] for i in de[n.id] if ge.nodes[i].kind == "branch"]
        ck.require(not guards, "C18.2s", "%s: `%s` unconditional" % (q.fn(fe), q.stmt_text(n)[:40]), "later values overwrite earlier ones",
                   "the merge keeps an existing value (guard `%s`): the most recently pushed value does not win" % [dump(b.test) for b in guards], q.loc(fe, n))
        tv = prov.origin(ge, n, n.ast.value)
        ck.require(tv[0] == "call" and tv[1] == ("global", "str"), "C18.2s", "%s: value converted with str()" % q.fn(fe), "str(value)",
                   "header values are not converted to str", q.loc(fe, n))
    if n_st < 2:
        raise AnalysisError("anchor vanished: merge stores in emit_additional_headers (found %d)" % n_st)
    def before(a, b):
        """a is executed before b and never after it (normal control flow)"""
        fa = reachable_avoiding(ge, a.id, set(), lambda l: l != "exc")
        fb = reachable_avoiding(ge, b.id, set(), lambda l: l != "exc")
        return b.id in fa and a.id not in fb
    if stack_loops:
        extra_stores = [n for n in stores if prov.contains(prov.origin(ge, n, n.ast.targets[0].slice), lambda x: x[0] == "attr" and x[2] == "_extra_headers")]
        ck.require(all(before(n, stack_loops[0][0]) for n in extra_stores) and bool(extra_stores), "C18.2s",
                   "%s: URL-credential headers merged before the stack" % q.fn(fe), "so that pushed headers supersede them",
                   "headers derived from the URL are merged after the pushed ones", q.loc(fe, fe.node))
    pops_ro = [(n, c) for n in ge.live_nodes() for c in node_calls(n) if call_name(c) == "pop" and len(c.args) == 2]
    puts = [n for n in ge.live_nodes() for c in node_calls(n) if call_name(c) == "putheader"]
    ck.require(len(pops_ro) == 1 and all(before(pops_ro[0][0], p_) for p_ in puts) and bool(puts) and
               all(before(n, pops_ro[0][0]) for n in stores), "C18.3", "%s: merge -> protected-name filter -> emission" % q.fn(fe), "ordered",
               "the protected names are not removed after the merge and before the emission", q.loc(fe, fe.node))
    # what is emitted is what was merged and filtered: the name written on the wire is the dictionary key itself (a name
    # transformed at emission - stripped, re-cased - was not the one the protected-name filter and the User-Agent test saw)
    for n in ge.live_nodes():
        for c in node_calls(n):
            if call_name(c) == "putheader" and c.args:
                tn = prov.origin(ge, n, c.args[0])
                plain = tn[0] == "unpack" and tn[2] == 0 and tn[1][0] == "elem" and tn[1][1][0] == "call" and tn[1][1][1][0] == "attr" and tn[1][1][1][2] == "items"
                plain = plain or (tn[0] == "elem" and not prov.contains(tn, lambda x: x[0] == "call" and x[1][0] == "attr" and x[1][2] not in ("items", "keys")))
                if not plain and not prov.contains(tn, lambda x: x[0] == "call" and x[1][0] == "attr" and x[1][2] in ("items", "keys")):
                    # the emitted name is computed by statements the provenance does not follow back to the key (a loop that re-spells
                    # it): the truth table of send_content above (C18.2) is what judges the names really emitted
                    raise AnalysisError("the header name emitted by `%s` is computed in steps that are not followed back to the merged key" % dump(c)[:50])
                ck.require(plain, "C18.3", "%s: `%s` emits the merged key itself" % (q.fn(fe), dump(c)[:50]), "key of the merged dictionary, unchanged",
                           "the header name put on the wire is %s, not the key that went through the merge and the protected-name filter: a "
                           "pushed name that only becomes `content-type` / `content-length` / `user-agent` after that transformation is "
                           "emitted as a second, overriding header" % prov.show(tn)[:70], q.loc(fe, n))
    rule_readonly_table(ck)
    ge = cfg_of(fe)
    rets = [n for n in ge.live_nodes() if n.kind == "return"]
    for rn in rets:
        ck.require(rn.ast is not None and isinstance(rn.ast.value, ast.Name), "C18.4", "%s: returns the emitted dictionary" % q.fn(fe), "dictionary returned",
                   "emit_additional_headers does not return the dictionary of emitted headers (the User-Agent fallback test uses it)", q.loc(fe, rn))
    gs = cfg_of(fsend)
    # the membership test of the fallback, wherever it is evaluated (in the `if` itself or stored in a flag first)
    uat = []
    for n in gs.live_nodes():
        for e in node_exprs(n):
            for sub in ast.walk(e):
                if isinstance(sub, ast.Compare) and len(sub.comparators) == 1 and isinstance(sub.ops[0], (ast.In, ast.NotIn)) and \
                        prov.contains(prov.origin(gs, n, sub.comparators[0]),
                                      lambda x: x[0] == "call" and x[1][0] == "attr" and x[1][2] == "emit_additional_headers"):
                    uat.append(sub)

    def _lit(e):
        try:
            return prog.const("jsonrpc", e)
        except AnalysisError:
            return None
    okk = any(_lit(c.left) == spec.FALLBACK_HEADER for c in uat)
    ck.require(okk, "C18.4", "%s: fallback test uses the lower-case literal" % q.fn(fsend), "'user-agent' in <emitted>",
               "the User-Agent fallback compares a non-normalised literal with the lower-cased header names", q.loc(fsend, fsend.node))

    # the configured User-Agent is the one the transport falls back on
    fti = prog.func("jsonrpc", "TransportMixIn.__init__")
    gti = cfg_of(fti)
    uas = [n for n in gti.live_nodes() if n.kind == "stmt" and isinstance(n.ast, ast.Assign) and any(dump(t_) == "self.user_agent" for t_ in n.ast.targets)]
    okk = len(uas) == 1 and prov.origin(gti, uas[0], uas[0].ast.value) == ("attr", ("param", "config"), "user_agent")
    ck.require(okk, "C18.4", "%s: self.user_agent = config.user_agent" % q.fn(fti), "the configured User-Agent",
               "the transport does not take its User-Agent from the configuration (%s): requests without a pushed User-Agent carry the "
               "xmlrpc.client default instead of the configured one" % ("no store" if not uas else prov.show(prov.origin(gti, uas[0], uas[0].ast.value))),
               q.loc(fti, fti.node))
    fsc = prog.func("jsonrpc", "TransportMixIn.send_content")
    gsc = cfg_of(fsc)
    uap = [(n, c) for n in gsc.live_nodes() for c in node_calls(n) if call_name(c) == "putheader" and c.args and isinstance(c.args[0], ast.Constant)
           and str(c.args[0].value).lower() == "user-agent"]
    okk = len(uap) == 1 and len(uap[0][1].args) == 2 and prov.origin(gsc, uap[0][0], uap[0][1].args[1]) == ("attr", ("param", "self"), "user_agent")
    ck.require(okk, "C18.4", "%s: fallback header value" % q.fn(fsc), "putheader('User-Agent', self.user_agent)",
               "the fallback User-Agent header does not carry self.user_agent", q.loc(fsc, fsc.node))
    from rules import common as _cm18
    _cm18.check_no_shared_mutable(ck, "C18.5", modules=("jsonrpc",))
    # ---- C18.5 stack discipline ------------------------------------------------------------------------------
    fpush = prog.func("jsonrpc", "TransportMixIn.push_headers")
    fpop = prog.func("jsonrpc", "TransportMixIn.pop_headers")
    c1 = [c for c in ast.walk(fpush.node) if isinstance(c, ast.Call) and isinstance(c.func, ast.Attribute) and dump(c.func.value) == "self.additional_headers"]
    ck.require(len(c1) == 1 and c1[0].func.attr == "append" and dump(c1[0].args[0]) == "headers", "C18.5", "%s: appends the dictionary" % q.fn(fpush),
               "self.additional_headers.append(headers)", "push_headers does `%s`" % (dump(c1[0]) if c1 else None), q.loc(fpush, fpush.node))
    c2 = [c for c in ast.walk(fpop.node) if isinstance(c, ast.Call) and isinstance(c.func, ast.Attribute) and dump(c.func.value) == "self.additional_headers"]
    dels = [d_ for d_ in ast.walk(fpop.node) if isinstance(d_, ast.Delete)]
    okk = (len(c2) == 1 and c2[0].func.attr == "pop" and (not c2[0].args or dump(c2[0].args[0]) == "-1") and not dels) or \
          (not c2 and len(dels) == 1 and dump(dels[0].targets[0]) == "self.additional_headers[-1]")
    ck.require(okk, "C18.5", "%s: removes the last pushed dictionary" % q.fn(fpop), "self.additional_headers.pop()",
               "pop_headers removes `%s`: it must remove the top of the stack, not the first dictionary equal to the argument (an inner block "
               "whose dictionary equals an outer one would remove the outer one)" % ([dump(c) for c in c2] or [dump(d_) for d_ in dels]), q.loc(fpop, fpop.node))
    # every push stores and every pop removes: no path through either method skips the stack operation (a push that is
    # "optimised away" and a pop that guesses which push it answers lose the pairing with the enclosing blocks)
    for (fm, opname) in ((fpush, "append"), (fpop, "pop")):
        gm = cfg_of(fm)
        ops = set(n.id for n in gm.live_nodes() for c in node_calls(n) if isinstance(c.func, ast.Attribute) and c.func.attr == opname and
                  dump(c.func.value) == "self.additional_headers")
        ops |= set(n.id for n in gm.live_nodes() if n.kind == "stmt" and isinstance(n.ast, ast.Delete) and "self.additional_headers" in dump(n.ast))
        skip = reachable_avoiding(gm, gm.entry.id, ops, lambda l: l != "exc")
        ck.require(bool(ops) and gm.return_exit.id not in skip, "C18.5", "%s: every call performs the stack operation" % q.fn(fm),
                   "no return before `self.additional_headers.%s(...)`" % opname,
                   "%s can return without %s the stack (an early return on a special case): pushes and pops of nested blocks are no longer "
                   "paired, and leaving an inner block can leave its headers in force" % (fm.name, "growing" if opname == "append" else "shrinking"),
                   q.loc(fm, fm.node))
    finit = prog.func("jsonrpc", "ServerProxy.__init__")
    pc = [c for c in ast.walk(finit.node) if isinstance(c, ast.Call) and call_name(c) == "push_headers"]
    gi_ = cfg_of(finit)
    pcn = [(n_, c_) for n_ in gi_.live_nodes() for c_ in node_calls(n_) if call_name(c_) == "push_headers"]
    ck.require(len(pc) == 1 and len(pcn) == 1 and bool(pcn[0][1].args) and _own_headers(prov.origin(gi_, pcn[0][0], pcn[0][1].args[0]), "headers"),
               "C18.5", "%s: constructor headers pushed once" % q.fn(finit),
               "one push_headers(headers or {})", "the constructor pushes its headers %d times" % len(pc), q.loc(finit, finit.node))
    ftm = prog.func("jsonrpc", "TransportMixIn.__init__")
    ok_init = any(isinstance(st_, ast.Assign) and dump(st_.targets[0]) == "self.additional_headers" and dump(st_.value) == "[]" for st_ in ast.walk(ftm.node))
    ck.require(ok_init, "C18.5", "%s: the stack starts empty" % q.fn(ftm), "self.additional_headers = []", "the header stack is not initialised empty per transport", q.loc(ftm, ftm.node))

    # ---- C18.6 a failed emission does not leave its headers behind (shared with C19.1) -------------------------------------------
    from rules import c19 as _c19h
    _cm18.import_rules(ck, _c19h, {"C19.1": "C18.6"})
    ck.floor("C18.6", 4)


def _class_attr(prog, cls, name):
    ci = prog.cls("jsonrpc", cls)
    for st in ci.node.body:
        if isinstance(st, ast.Assign) and any(isinstance(t, ast.Name) and t.id == name for t in st.targets):
            return st.value
    raise AnalysisError("anchor vanished: %s.%s" % (cls, name))
