"""C15 jsonclass round-trips plain data and is side-effect free."""
import ast
from vlib.model import AnalysisError, dump, kwarg, call_name
from vlib.cfg import cfg_of, node_calls
from vlib.flow import dominators, reachable_avoiding
from vlib import prov, q, spec
from rules import common

META = {
    "explanation": (
        "Decides: C15.1 neither jsonclass.dump nor jsonclass.load (nor their helpers) mutates the object it is given: "
        "every store / mutating call whose receiver derives from the argument is either absent or a removal that is "
        "undone on every exit, exceptional exits included (no path from the mutation to a return or raise exit avoids "
        "the restoring store); C15.2 every return of dump is the argument itself under the primitive test, a list built "
        "from recursive dump results over the argument's items, a dict with the original keys and recursive dump values, "
        "a registered handler's result, or the descriptor dict, and load mirrors it (argument / list / dict / constructed "
        "object): no other constructor (tuple, set, str(), float(), list(obj) without recursion) can produce the output; "
        "C15.3 the folded type tables equal the spec (primitives {bytes,str,int,float,bool,NoneType}, iterables "
        "{list,set,frozenset,tuple}, supported = dict + both); C15.4 the primitive branch returns the argument itself "
        "(identity, no conversion) in both functions and is the first type test after the handler lookup. C15.5 (imported from C02.6) the JSON backend is called with the object alone: options such as allow_nan=False, sort_keys, skipkeys or default change which dumped structures it can serialise."),
    "does_not_decide": "equality of load(dump(x)) with x; JSON serialisability of the output for string keys.",
    "rules": {"C15.5": "imported C02.6 (backend call options)",
              "C15.1": "mutation scan with receiver provenance + CFG reachability avoiding the restoring store",
              "C15.2": "classification of return expressions by provenance", "C15.3": "constant folding vs spec A.3",
              "C15.4": "provenance of the return under the primitive branch", "C15.6": "statement scan of dump (after helper expansion)"},
    "assumptions": ["list/dict comprehensions build new containers"],
}


def derives_from_arg(t, param):
    return prov.contains(t, lambda x: x == ("param", param))


def _rooted(t, param):
    """the term is the parameter itself or a member / attribute of it (the same mutable object, not a computed copy)"""
    while t[0] in ("attr", "item"):
        t = t[1]
    return t == ("param", param)


def mapped_list(g, rn, v, rec_name):
    """`v` denotes [rec(item, ...) for item in obj] spelled as list(<genexp>) or as an append loop"""
    if isinstance(v, ast.Call) and dump(v.func) == "list" and len(v.args) == 1 and isinstance(v.args[0], (ast.GeneratorExp, ast.ListComp)):
        return v.args[0]
    if isinstance(v, ast.Name):
        defs = prov.rd_of(g).get(rn.id, {}).get(v.id, ())
        dn = [g.nodes[i] for i in defs]
        if len(dn) == 1 and dn[0].kind == "stmt" and isinstance(dn[0].ast, ast.Assign) and dump(dn[0].ast.value) == "[]":
            apps = [(n, c) for n in g.live_nodes() for c in node_calls(n) if dump(c.func) == v.id + ".append"]
            if len(apps) == 1:
                n, c = apps[0]
                loops = [l for l in g.live_nodes() if l.kind == "for_body" and dump(l.ast.iter) == "obj" and
                         any(sub is n.ast for st_ in l.ast.body for sub in ast.walk(st_))]
                if len(loops) == 1 and isinstance(loops[0].ast.target, ast.Name) and len(loops[0].ast.body) == 1 and isinstance(c.args[0], ast.Call) \
                        and dump(c.args[0].func) == rec_name and c.args[0].args and dump(c.args[0].args[0]) == loops[0].ast.target.id:
                    return "loop"
    return None


def mapped_dict(g, rn, v, rec_name):
    """`v` is a local bound to `{}` and filled only by `v[key] = rec(value, ...)` in `for key, value in obj.items()`"""
    if not isinstance(v, ast.Name):
        return False
    defs = prov.rd_of(g).get(rn.id, {}).get(v.id, ())
    dn = [g.nodes[i] for i in defs]
    if not (len(dn) == 1 and dn[0].kind == "stmt" and isinstance(dn[0].ast, ast.Assign) and dump(dn[0].ast.value) in ("{}", "dict()")):
        return False
    stores = [n for n in g.live_nodes() if n.kind == "stmt" and isinstance(n.ast, ast.Assign) and
              any(isinstance(t, ast.Subscript) and dump(t.value) == v.id for t in n.ast.targets)]
    other = [n for n in g.live_nodes() for c in node_calls(n) if isinstance(c.func, ast.Attribute) and dump(c.func.value) == v.id]
    if len(stores) != 1 or other:
        return False
    n = stores[0]
    loops = [l for l in g.live_nodes() if l.kind == "for_body" and dump(l.ast.iter) == "obj.items()" and
             any(sub is n.ast for st_ in l.ast.body for sub in ast.walk(st_))]
    if len(loops) != 1 or len(loops[0].ast.body) != 1 or not isinstance(loops[0].ast.target, ast.Tuple) or len(loops[0].ast.target.elts) != 2:
        return False
    k_, v_ = [dump(e) for e in loops[0].ast.target.elts]
    val = n.ast.value
    return len(n.ast.targets) == 1 and dump(n.ast.targets[0].slice) == k_ and isinstance(val, ast.Call) and dump(val.func) == rec_name \
        and bool(val.args) and dump(val.args[0]) == v_


def rule_c15_3(ck):
    prog = ck.prog
    # ---- C15.3 type tables ---------------------------------------------------------------------------------
    for mod, name, want in (("utils", "PRIMITIVE_TYPES", spec.PRIMITIVES), ("utils", "ITERABLE_TYPES", spec.ITERABLES),
                            ("jsonclass", "SUPPORTED_TYPES", spec.SUPPORTED)):
        m = prog.modules[mod]
        if name not in m.assigns:
            raise AnalysisError("anchor vanished: %s.%s" % (mod, name))
        got = prog.typeset(mod, m.assigns[name])
        ck.require(got == want, "C15.3", "%s.%s" % (mod, name), "= %s" % sorted(want),
                   "%s.%s folds to %s, the property requires %s" % (mod, name, sorted(got) if got else got, sorted(want)), "jsonrpclib/%s.py" % mod)
    for name, want in (("DictType", {"dict"}), ("ListType", {"list"}), ("TupleType", {"tuple"}), ("STRING_TYPES", {"bytes", "str"}),
                       ("NUMERIC_TYPES", {"int", "float"}), ("VALUE_TYPES", {"bool", "NoneType"})):
        if name not in prog.modules["utils"].assigns:
            raise AnalysisError("anchor vanished: utils.%s" % name)
        d = prog.typeset("utils", prog.modules["utils"].assigns[name])
        ck.require(d == want, "C15.3", "utils.%s" % name, "= %s" % sorted(want),
                   "utils.%s folds to %s, the type tests of the package rely on %s" % (name, sorted(d) if d else d, sorted(want)), "jsonrpclib/utils.py")


def _outside_domain(prog, g, dom, rn):
    """the return is reached only when isinstance(obj, ...) failed for the list-like types and for dict"""
    ruled_out = set()
    for d in dom[rn.id]:
        b = g.nodes[d]
        if b.kind == "branch" and isinstance(b.test, ast.Call) and dump(b.test.func) == "isinstance" and len(b.test.args) == 2 and \
                dump(b.test.args[0]) == "obj":
            ts = prog.typeset("jsonclass", b.test.args[1])
            if ts and b.polarity is False:
                ruled_out |= set(ts)
        if b.kind == "branch" and isinstance(b.test, ast.UnaryOp) and isinstance(b.test.op, ast.Not) and isinstance(b.test.operand, ast.Call) and \
                dump(b.test.operand.func) == "isinstance" and len(b.test.operand.args) == 2 and dump(b.test.operand.args[0]) == "obj":
            ts = prog.typeset("jsonclass", b.test.operand.args[1])
            if ts and b.polarity is True:
                ruled_out |= set(ts)
    return {"list", "dict"} <= ruled_out


def check(ck):
    prog = ck.prog
    fdump = prog.func("jsonclass", "dump")
    fload = prog.func("jsonclass", "load")
    # ---- C15.1 purity -----------------------------------------------------------------------------
    n1 = 0
    scan = [(fdump, "obj"), (fload, "obj")]
    # optional parameters with default None that no call site of the package supplies: always None inside the helper
    none_params = set()
    callers_of = {}
    for hf in prog.module_funcs("jsonclass"):
        callers_of[hf.fq] = q.all_call_sites(prog, lambda r, c, hf=hf: isinstance(r, type(hf)) and r.fq == hf.fq)
        a_ = hf.node.args
        dflts = dict(zip([x.arg for x in a_.args][len(a_.args) - len(a_.defaults):], a_.defaults))
        for i, p in enumerate(hf.params):
            d_ = dflts.get(p)
            if isinstance(d_, ast.Constant) and d_.value is None and callers_of[hf.fq] and \
                    all(i >= len(cc.args) and not any(isinstance(x, ast.Starred) for x in cc.args) and
                        not any(k.arg == p or k.arg is None for k in cc.keywords) for (_cf, _cn, cc) in callers_of[hf.fq]):
                none_params.add((hf.fq, p))
    for hf in prog.module_funcs("jsonclass"):
        if hf.fq in (fdump.fq, fload.fq):
            continue
        # helpers: a parameter is the caller's data unless every call site passes a freshly created object
        callers = q.all_call_sites(prog, lambda r, c, hf=hf: isinstance(r, type(hf)) and r.fq == hf.fq, modules=("jsonclass",))
        for i, p in enumerate(hf.params):
            if hf.cls is not None and i == 0:
                continue        # the method's own instance is not the caller's data (escapes into instances are refused below)
            if (hf.fq, p) in none_params:
                continue        # never supplied: the helper works on what it creates itself when it finds None
            fresh_everywhere = bool(callers)
            for (cf, cn, cc) in callers:
                a = cc.args[i] if i < len(cc.args) else None
                if a is None:
                    a = next((k.value for k in cc.keywords if k.arg == p), None)
                if a is None:
                    # not supplied at this site: the helper gets its declared default - no data of anybody when that is a constant
                    nd_ = len(hf.node.args.defaults)
                    j_ = i - (len(hf.node.args.args) - nd_)
                    dflt_ = hf.node.args.defaults[j_] if 0 <= j_ < nd_ else None
                    if not (isinstance(dflt_, ast.Constant) and not any(isinstance(x, ast.Starred) for x in cc.args) and
                            not any(k.arg is None for k in cc.keywords)):
                        fresh_everywhere = False
                    continue
                ta = prov.origin(cfg_of(cf), cn, a)
                for alt in prov.alts(ta):
                    if not (common.is_fresh(alt) or (cf.fq == hf.fq and alt == ("param", p)) or
                            (alt[0] == "param" and (cf.fq, alt[1]) in none_params)):
                        fresh_everywhere = False
            if not fresh_everywhere:
                scan.append((hf, p))
    for fi, param in scan:
        g = cfg_of(fi)
        from vlib import narrow as _nw15
        _exc15 = _nw15.program_exception_parents(prog)
        # (an exception object carries what it is given up to its handler: raising it mutates nothing)
        for (n, c) in q.call_sites(prog, fi, lambda r, c: isinstance(r, str) and r.startswith("class:jsonclass.") and
                                   r.split(".")[-1] not in _exc15 and r.split(".")[-1] != "TranslationError"):
            for a in list(c.args) + [k.value for k in c.keywords]:
                if any(_rooted(x, param) for x in prov.value_alts(prov.origin(g, n, a))):
                    raise AnalysisError("the argument of %s escapes into an instance (`%s`): mutation through instance fields is not modelled"
                                        % (q.fn(fi), dump(c)[:60]))
        for (n, desc, recv) in common.mutations(fi):
            t = prov.origin(g, n, recv)
            if not derives_from_arg(t, param):
                continue
            # receivers that are results of calls on the argument (e.g. getattr(obj, ...) + x) are new objects
            if all(a[0] in ("call", "binop", "tuple", "other") and a != ("param", param) for a in prov.alts(t)) and \
                    not any(a[0] == "call" and a[1][0] == "attr" and a[1][1] == ("param", param) for a in prov.alts(t)):
                if not any(a[0] == "call" and a[1] == ("global", "getattr") for a in prov.alts(t)):
                    continue
            n1 += 1
            if desc.startswith("setattr("):
                # setattr on the object under construction is not a mutation of the argument
                continue
            # a removal restored on every exit?
            restores = [m for m in g.live_nodes() if m.kind == "stmt" and isinstance(m.ast, ast.Assign) and
                        any(isinstance(tg, ast.Subscript) and dump(tg.value) == dump(recv) for tg in m.ast.targets)]
            is_pop = desc.startswith("call ") and desc.endswith(".pop")
            if is_pop and any(isinstance(y_, (ast.Yield, ast.YieldFrom)) for y_ in ast.walk(fi.node)):
                ck.bad("C15.1", "%s: %s inside a generator" % (q.fn(fi), desc),
                       "`%s` removes an entry of the caller's object inside a generator: the restoring `finally` only runs when the generator is "
                       "resumed to its end or finalised - if the consumer fails between two items (or keeps the generator alive), the argument "
                       "stays modified" % q.stmt_text(n)[:50], q.loc(fi, n))
                continue
            if is_pop and restores:
                key = None
                for c in node_calls(n):
                    if call_name(c) == "pop" and c.args:
                        key = dump(c.args[0])
                rest_ids = set(m.id for m in restores if any(isinstance(tg, ast.Subscript) and dump(tg.slice) == key for tg in m.ast.targets))
                starts = [b for (b, l) in g.succ[n.id] if l != "exc"]
                reach = set()
                for b in starts:
                    reach |= reachable_avoiding(g, b, rest_ids)
                leaks = [x for x in (g.return_exit.id, g.raise_exit.id) if x in reach]
                ck.require(not leaks, "C15.1", "%s: %s restored on every exit" % (q.fn(fi), desc),
                           "every path from the removal to an exit passes the restoring store",
                           "`%s` removes %s from the caller's object and there is a path to %s that does not restore it: the "
                           "argument is left modified (e.g. when the load fails)" % (q.stmt_text(n)[:50], key,
                                                                                     "an exceptional exit" if g.raise_exit.id in leaks else "a return"),
                           q.loc(fi, n))
            elif any(m.id == n.id for m in restores):
                # the restoring store itself
                # ... and what it stores is the very object that was removed (not a slice, copy or conversion of it)
                tv = prov.origin(g, n, n.ast.value)
                key_ = dump(n.ast.targets[0].slice) if isinstance(n.ast.targets[0], ast.Subscript) else None
                def _is_removed(a):
                    return a[0] == "call" and a[1][0] == "attr" and a[1][2] == "pop" and _rooted(a[1][1], param) and \
                        len(a[2]) >= 1 and a[2][0][0] == "const" and repr(a[2][0][1]) == key_
                ck.require(all(_is_removed(a) for a in prov.value_alts(tv)), "C15.1", "%s: %s (restore)" % (q.fn(fi), desc),
                           "restores the removed entry itself",
                           "the entry %s is restored as `%s`, which is not the removed object itself (%s): the caller's object "
                           "comes back changed" % (key_, dump(n.ast.value)[:50], prov.show(tv)[:60]), q.loc(fi, n))
            else:
                ck.bad("C15.1", "%s: %s" % (q.fn(fi), desc),
                       "the object given to %s is modified (%s on %s)" % (fi.name, desc, prov.show(t)[:60]), q.loc(fi, n))
    ck.ok("C15.1", "jsonclass.dump / load / _find_fields: mutation scan", "%d mutation(s) of argument-derived objects examined" % n1, "")
    ck.floor("C15.1", 1)

    # ---- C15.6 dump has no failure path of its own -------------------------------------------------------------------------
    # for nestings of lists, tuples, sets, dicts and primitives dump only recurses: it contains no raise statement (a
    # validation added to it - depth limit, "circular reference" guard - rejects finite structures that share a sub-object)
    rz = [x for x in ast.walk(fdump.node) if isinstance(x, ast.Raise)]
    def _ancestor_guard(r_):
        """the raise is guarded by `id(obj) in P` (or a local holding id(obj)) where P is a parameter that is only ever rebound to a NEW
        collection built from it (P.union(..), P | .., frozenset(..)) and never modified in place: P then holds the ancestors of the
        current value on this path alone, and the test is true only for a structure that contains itself (infinite for dump anyway)"""
        gd_ = cfg_of(fdump)
        for (t_, pol_) in q.guards_of(gd_, next((n_ for n_ in gd_.live_nodes() if n_.ast is r_), None) or gd_.entry):
            if isinstance(t_, ast.Compare) and len(t_.ops) == 1 and isinstance(t_.ops[0], ast.In) and pol_ and isinstance(t_.comparators[0], ast.Name) and \
                    t_.comparators[0].id in fdump.params:
                pn_ = t_.comparators[0].id
                lhs_ = dump(t_.left)
                is_id = lhs_ == "id(obj)" or any(isinstance(st_, ast.Assign) and dump(st_.value) == "id(obj)" and
                                                 any(isinstance(x_, ast.Name) and x_.id == lhs_ for x_ in st_.targets) for st_ in ast.walk(fdump.node))
                mutated = any(isinstance(c_, ast.Call) and isinstance(c_.func, ast.Attribute) and dump(c_.func.value) == pn_ and
                              c_.func.attr in ("add", "append", "update", "extend", "insert", "discard", "remove", "pop", "clear", "setdefault")
                              for c_ in ast.walk(fdump.node)) or \
                    any(isinstance(st_, ast.AugAssign) and dump(st_.target) == pn_ for st_ in ast.walk(fdump.node)) or \
                    any(isinstance(x_, ast.Subscript) and isinstance(x_.ctx, (ast.Store, ast.Del)) and dump(x_.value) == pn_ for x_ in ast.walk(fdump.node))
                rebinds = [st_.value for st_ in ast.walk(fdump.node) if isinstance(st_, ast.Assign) and any(dump(x_) == pn_ for x_ in st_.targets)]
                fresh = all((isinstance(v_, ast.Call) and ((isinstance(v_.func, ast.Name) and v_.func.id in ("frozenset", "set", "tuple")) or
                                                          (isinstance(v_.func, ast.Attribute) and v_.func.attr == "union" and dump(v_.func.value) == pn_))) or
                            (isinstance(v_, ast.BinOp) and isinstance(v_.op, (ast.BitOr, ast.Add)) and dump(v_.left) == pn_) for v_ in rebinds)
                if is_id and not mutated and rebinds and fresh:
                    return True
        return False
    rz = [x for x in rz if not _ancestor_guard(x)]
    ck.require(not rz, "C15.6", "jsonclass.dump: no raise statement", "dump only recurses / delegates",
               "dump contains `%s`: plain data for which that condition holds (e.g. the same list or empty tuple reachable twice) is rejected "
               "instead of being converted" % (dump(rz[0])[:60] if rz else ""), q.loc(fdump, rz[0]) if rz else "")

    # ---- C15.2 / C15.4 output constructors -------------------------------------------------------------
    for fi, rec_name in ((fdump, "dump"), (fload, "load")):
        g = cfg_of(fi)
        dom = dominators(g)
        rets = [n for n in g.live_nodes() if n.kind == "return"]
        kinds = {}
        for rn in rets:
            v = rn.ast.value if rn.ast is not None else None
            t = prov.origin(g, rn, v) if v is not None else ("const", None)
            prim = [g.nodes[d] for d in dom[rn.id] if g.nodes[d].kind == "branch" and g.nodes[d].polarity and
                    isinstance(g.nodes[d].test, ast.Call) and dump(g.nodes[d].test.func) == "isinstance" and
                    dump(g.nodes[d].test.args[0]) == "obj" and
                    prog.typeset("jsonclass", g.nodes[d].test.args[1]) == spec.PRIMITIVES]
            kind = None
            if prim:
                kind = "primitive"
                # between the type test and the return nothing is computed on the value (math.isnan / float() / hash() / a
                # comparison of a huge int, a lone-surrogate str ... can raise for values inside the primitive types)
                from vlib.model import is_logging_call as _ilc
                for m_ in g.live_nodes():
                    if prim[0].id in dom[m_.id] and m_.id != rn.id:
                        for c_ in node_calls(m_):
                            if _ilc(c_) and all(isinstance(a_, (ast.Name, ast.Constant)) for a_ in c_.args):
                                continue
                            if isinstance(c_.func, ast.Attribute) and c_.func.attr == "isEnabledFor":
                                continue
                            if dump(c_.func) == "isinstance":
                                continue
                            ck.bad("C15.4", "%s: `%s` in the primitive branch" % (q.fn(fi), dump(c_)[:40]),
                                   "the primitive branch evaluates `%s` before returning the value: for some values of the primitive types "
                                   "(an int beyond the float range, NaN, a str with a lone surrogate) such a computation raises, and "
                                   "%s fails on plain data" % (dump(c_)[:50], fi.name), q.loc(fi, m_))
                ck.require(t == ("param", "obj"), "C15.4", "%s: primitive branch `%s`" % (q.fn(fi), q.stmt_text(rn)),
                           "returns the argument itself", "a primitive is returned as %s instead of itself: its exact type/value is not preserved"
                           % prov.show(t), q.loc(fi, rn))
            elif mapped_dict(g, rn, v, rec_name):
                kind = "dict"
                ck.ok("C15.2", "%s: dict built by a store loop over obj.items()" % q.fn(fi), "same keys, each value passed through %s" % rec_name, q.loc(fi, rn))
            elif mapped_list(g, rn, v, rec_name) == "loop":
                kind = "list"
                ck.ok("C15.2", "%s: list built by an append loop over obj" % q.fn(fi), "each item passed through %s" % rec_name, q.loc(fi, rn))
            elif isinstance(v, ast.ListComp) or mapped_list(g, rn, v, rec_name) is not None:
                if not isinstance(v, ast.ListComp):
                    v = mapped_list(g, rn, v, rec_name)
                gen = v.generators[0]
                okk = len(v.generators) == 1 and not gen.ifs and dump(gen.iter) == "obj" and isinstance(v.elt, ast.Call) and \
                    dump(v.elt.func) == rec_name and v.elt.args and dump(v.elt.args[0]) == dump(gen.target)
                kind = "list"
                ck.require(okk, "C15.2", "%s: `%s`" % (q.fn(fi), dump(v)[:60]), "[%s(item, ...) for item in obj]" % rec_name,
                           "the list branch returns `%s`: items are not each passed through %s" % (dump(v)[:70], rec_name), q.loc(fi, rn))
            elif isinstance(v, ast.DictComp):
                gen = v.generators[0]
                okk = len(v.generators) == 1 and not gen.ifs and dump(gen.iter) == "obj.items()" and isinstance(gen.target, ast.Tuple) and \
                    dump(v.key) == dump(gen.target.elts[0]) and isinstance(v.value, ast.Call) and dump(v.value.func) == rec_name and \
                    v.value.args and dump(v.value.args[0]) == dump(gen.target.elts[1])
                kind = "dict"
                ck.require(okk, "C15.2", "%s: `%s`" % (q.fn(fi), dump(v)[:60]), "{key: %s(value, ...) for key, value in obj.items()}" % rec_name,
                           "the dict branch returns `%s`: keys are not kept or values not passed through %s" % (dump(v)[:70], rec_name), q.loc(fi, rn))
            elif fi is fdump and t[0] == "call" and all(
                    (a[0] == "item" and prov.show(a[1]).endswith("serialize_handlers")) or
                    (a[0] == "call" and a[1][0] == "attr" and a[1][2] == "get" and prov.show(a[1][1]).endswith("serialize_handlers")) or
                    a == ("const", None) for a in prov.alts(t[1])) and any(a != ("const", None) for a in prov.alts(t[1])):
                kind = "handler"
                ck.ok("C15.2", "%s: `%s`" % (q.fn(fi), q.stmt_text(rn)[:50]), "registered handler's result", q.loc(fi, rn))
            elif fi is fdump and t[0] == "call" and any(a[0] == "call" and a[1][0] == "global" and ("jsonclass." + a[1][1]) in prog.funcs and
                                                        any(prov.show(x_).endswith("serialize_handlers") for x_ in a[2]) for a in prov.alts(t[1])):
                # the handler is picked by a new helper of the package that is given the handler table: which handler it hands back is not followed
                raise AnalysisError("jsonclass.dump calls a handler selected by a helper function (`%s`): not modelled" % prov.show(t[1])[:60])
            elif fi is fdump and isinstance(v, ast.Name) and all(a[0] == "other" and a[1].startswith("{'__jsonclass__'") for a in prov.alts(t)):
                kind = "descriptor"
                ck.ok("C15.2", "%s: `%s`" % (q.fn(fi), q.stmt_text(rn)), "descriptor dictionary", q.loc(fi, rn))
            elif fi is fload and isinstance(v, ast.Name) and all(a[0] == "call" for a in prov.alts(t)) and v.id == "new_obj":
                kind = "object"
                ck.ok("C15.2", "%s: `%s`" % (q.fn(fi), q.stmt_text(rn)), "constructed object", q.loc(fi, rn))
            elif t == ("param", "obj") and _outside_domain(prog, g, dom, rn):
                kind = "foreign"
                ck.ok("C15.2", "%s: `%s`" % (q.fn(fi), q.stmt_text(rn)), "a value that is neither a primitive, a list-like nor a dictionary is handed back as it is "
                      "(outside the data the property speaks about)", q.loc(fi, rn))
            else:
                ck.bad("C15.2", "%s: `%s`" % (q.fn(fi), q.stmt_text(rn)[:60]),
                       "%s can return %s, which is none of the allowed output constructors (argument itself for primitives, list / "
                       "dict built from recursive %s results, handler result, descriptor / constructed object)" % (fi.name, prov.show(t)[:70], rec_name),
                       q.loc(fi, rn))
            kinds[kind] = kinds.get(kind, 0) + 1
        for need in ("primitive", "list", "dict"):
            ck.require(kinds.get(need, 0) >= 1, "C15.2", "%s: %s branch present" % (q.fn(fi), need), "present",
                       "%s has no %s branch" % (fi.name, need), q.loc(fi, fi.node))
        # branch order: primitive test precedes the iterable and dict tests
        tests = [n for n in g.live_nodes() if n.kind == "test" and isinstance(n.ast, ast.Call) and dump(n.ast.func) == "isinstance"
                 and dump(n.ast.args[0]) == "obj"]
        sets = [(n, prog.typeset("jsonclass", n.ast.args[1])) for n in tests]
        prim_t = [n for (n, ts) in sets if ts == spec.PRIMITIVES]
        iter_t = [n for (n, ts) in sets if ts == spec.ITERABLES]
        ck.require(len(prim_t) == 1 and len(iter_t) == 1 and prim_t[0].id in dom[iter_t[0].id], "C15.4",
                   "%s: primitive test before the iterable test" % q.fn(fi), "isinstance(obj, PRIMITIVE_TYPES) first",
                   "the type tests of %s are not primitive -> iterable in that order with the spec's type sets (found %s)" % (
                       fi.name, [sorted(ts) if ts else None for (_n, ts) in sets]), q.loc(fi, fi.node))
    ck.floor("C15.2", 10)
    ck.floor("C15.4", 4)

    rule_c15_3(ck)

    # ---- C15.5 backend options (shared with C02.6) ---------------------------------------------------------------------------
    from rules import c02 as _c02o
    common.import_rules(ck, _c02o, {"C02.6": "C15.5"})
    ck.floor("C15.5", 2)
