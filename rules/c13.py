"""C13 Replies depend only on the request: stateless per-request version adaptation; Config isolation."""
import ast
from vlib.model import AnalysisError, dump, kwarg, call_name, FuncInfo
from vlib.cfg import cfg_of, node_calls
from vlib.flow import dominators
from vlib import prov, q, shape, spec
from rules import common
from rules.common import SRV, DISP

META = {
    "explanation": (
        "Decides: C13.1 every store to a Config field / mutation of Config.classes or serialize_handlers in the "
        "package targets an object created in the same function by <config>.copy() or Config(...), and no function "
        "mutates a parameter that some call site binds to a long-lived Config's container (config.classes -> "
        "jsonclass.load(classes)); C13.2 Config.copy() carries every field assigned in Config.__init__ from the same "
        "source attribute and rebinds each mutable container field to the result of a copying call; C13.3 no function "
        "reachable from the serving entry points stores to an attribute of the dispatcher / server / a long-lived "
        "Config (history independence = nothing to remember); C13.4 every response constructor answering an "
        "object-shaped, versioned entry takes its configuration from the per-request adapter (\"jsonrpc\" absent and "
        "server >= 2.0 -> private copy with version 1.0, else the server configuration), computed from that request "
        "only; C13.5 Payload emits the 1.0 form for version 1.0 and the 2.0 form for version 2.0; C13.6 every constructor "
        "receiving a config hands that very object to the package constructors it calls, so the version of the caller's Config "
        "(not the shared DEFAULT) decides the form for every server class and transport; C13.7 (shared with C14.4) jsonrpc.dump builds its "
        "Payload with the caller's version, defaulting to the version of the config argument it was given - the per-request adapter - "
        "and of nothing else (not the configuration stored in a Fault returned by user code). C13.8 (imported from C02.1) no exception escapes the per-request dispatch into do_POST, whose request-less fault is built with the server's configuration - i.e. in the server's form whatever the request's version was. C13.9 (imported from C03.3) _marshaled_single_dispatch never hands a Fault object back to its caller: the caller's `isinstance(.., Fault)` branches dump a Fault with the Fault's own configuration (DEFAULT for a Fault built by application code), not with the per-request one."),
    "does_not_decide": "isolation between concurrently served requests as an observed behaviour (only the absence "
                       "of shared mutable serving state is decided).",
    "rules": {"C13.9": "imported C03.3 (dead Fault branch of the batch loop)",
              "C13.8": "imported C02.1 (E4 may-raise closure of the serving path)",
              "C13.1": "provenance / ownership of the receiver of every Config-field store (E3)",
              "C13.2": "sibling agreement Config.__init__ <-> Config.copy",
              "C13.3": "call-graph closure from the serving entry points + store scan with receiver provenance",
              "C13.4": "provenance of the config= argument at response constructor sites",
              "C13.5": "abstract evaluation of Payload builders per version region (E7)",
              "C13.6": "provenance of the config argument at constructor-to-constructor call sites", "C13.7": "imported C14.4"},
    "assumptions": ["dict.copy() / LocalClasses.copy() return a new container"],
}

LONG_LIVED = ("SimpleJSONRPCDispatcher", "SimpleJSONRPCServer", "PooledJSONRPCServer", "CGIJSONRPCRequestHandler",
              "Config", "LocalClasses")


def _field_read(prog, attr):
    """some function of the package loads an attribute of that name (or fetches it with getattr / hasattr)"""
    for fi in prog.funcs.values():
        for x in ast.walk(fi.node):
            if isinstance(x, ast.Attribute) and x.attr == attr and isinstance(x.ctx, ast.Load):
                return True
            if isinstance(x, ast.Call) and isinstance(x.func, ast.Name) and x.func.id in ("getattr", "hasattr") and len(x.args) > 1 and \
                    isinstance(x.args[1], ast.Constant) and x.args[1].value == attr:
                return True
            if isinstance(x, ast.Call) and isinstance(x.func, ast.Name) and x.func.id in ("vars",):
                return True
    return False


def check(ck):
    prog = ck.prog
    fields = common.config_fields(prog)
    mutable_fields = [f for f, v in fields.items()
                      if isinstance(v, (ast.Call, ast.Dict, ast.List, ast.BoolOp)) and f in ("classes", "serialize_handlers")]
    ck.stat("config_fields", len(fields))

    # ---- C13.1 writes only to fresh configs ------------------------------------------------
    n1 = 0
    shared_params = {}    # callee fq -> set(param names) bound to a long-lived config container somewhere
    for fi in prog.funcs.values():
        g = cfg_of(fi)
        for (n, c, r) in common.callees(prog, fi):
            params = [p for p in r.params if p != "self"] if r.cls is not None and r.params[:1] == ["self"] else r.params
            for i, a in enumerate(c.args):
                t = prov.origin(g, n, a)
                for alt in prov.alts(t):
                    if alt[0] == "attr" and alt[2] in mutable_fields and common.is_config_like(prog, fi, alt[1]) and i < len(params):
                        shared_params.setdefault(r.fq, set()).add(params[i])
                    if alt[0] == "param" and alt[1] in shared_params.get(fi.fq, ()) and i < len(params):
                        shared_params.setdefault(r.fq, set()).add(params[i])
            for k in c.keywords:
                t = prov.origin(g, n, k.value)
                for alt in prov.alts(t):
                    if alt[0] == "attr" and alt[2] in mutable_fields and common.is_config_like(prog, fi, alt[1]):
                        shared_params.setdefault(r.fq, set()).add(k.arg)
    for fi in prog.funcs.values():
        if fi.module == "config" and fi.qual in ("Config.__init__", "LocalClasses.add"):
            continue
        g = cfg_of(fi)
        for (n, desc, recv) in common.mutations(fi):
            t = prov.origin(g, n, recv)
            tgt = n.ast
            # (a) store of a Config field on a config-like object
            attr = None
            if desc.startswith("store ") and isinstance(tgt, (ast.Assign, ast.AugAssign)):
                for x in (tgt.targets if isinstance(tgt, ast.Assign) else [tgt.target]):
                    if isinstance(x, ast.Attribute) and x.value is recv and x.attr in fields:
                        attr = x.attr
            alts = prov.alts(t)
            configish = [a for a in alts if common.is_config_like(prog, fi, a)]
            via_field = [a for a in alts if a[0] == "attr" and a[2] in mutable_fields and
                         any(common.is_config_like(prog, fi, b) for b in prov.alts(a[1]))]
            shared = [a for a in alts if a[0] == "param" and a[1] in shared_params.get(fi.fq, ())]
            if attr is not None and (configish or any(not common.is_fresh(a) and a[0] != "param" for a in alts if a[0] == "attr" and a[2] in common.CONFIG_ATTRS)):
                n1 += 1
                ck.bad("C13.1", "%s: %s" % (q.fn(fi), desc),
                       "a field of a long-lived Config (%s) is written while serving; only a private copy may be modified"
                       % prov.show(t), q.loc(fi, n))
            elif attr is not None and alts and all(common.is_fresh(a) for a in alts) and \
                    any(a[0] == "call" and a[1][0] == "attr" and a[1][2] == "copy" for a in alts):
                n1 += 1
                ck.ok("C13.1", "%s: %s" % (q.fn(fi), desc), "receiver is %s (fresh copy)" % prov.show(t), q.loc(fi, n))
            elif via_field:
                n1 += 1
                ck.bad("C13.1", "%s: %s" % (q.fn(fi), desc),
                       "the %s container of a long-lived Config is mutated (%s)" % (via_field[0][2], prov.show(t)), q.loc(fi, n))
            elif shared:
                n1 += 1
                ck.bad("C13.1", "%s: %s" % (q.fn(fi), desc),
                       "parameter `%s` is bound by a caller to a container of a long-lived Config (config.classes / "
                       "serialize_handlers) and is mutated here: serving a request changes the server's Config" % shared[0][1],
                       q.loc(fi, n))
    ck.stat("shared_config_params", sum(len(v) for v in shared_params.values()))
    if not shared_params.get("jsonclass.load"):
        raise AnalysisError("anchor vanished: config.classes is no longer bound to a parameter of jsonclass.load")
    ck.ok("C13.1", "jsonclass.load(classes) <- config.classes", "parameter bound to a Config container is never mutated",
          "jsonrpclib/jsonclass.py")
    ck.floor("C13.1", 2)

    # ---- C13.2 copy is complete and unshared ----------------------------------------------------
    common.check_config_copy(ck, "C13.2")
    ck.floor("C13.2", 10)

    # ---- C13.3 no serving-time state ----------------------------------------------------------------
    reach = common.closure(prog, common.serving_roots(prog), skip_modules=("threadpool",))
    ck.stat("serving_functions", len(reach))
    n3 = 0
    for fi in reach.values():
        if fi.name == "__init__":
            continue      # constructors initialise the object being created
        g = cfg_of(fi)
        for (n, desc, recv) in common.mutations(fi):
            t = prov.origin(g, n, recv)
            n3 += 1
            bad = None
            for a in prov.alts(t):
                root = a
                while root[0] in ("attr", "item"):
                    root = root[1]
                if root == ("param", "self") and fi.cls is not None and fi.cls.name in LONG_LIVED:
                    bad = "the long-lived %s instance (%s)" % (fi.cls.name, prov.show(a))
                elif common.is_config_like(prog, fi, a) or (a[0] == "attr" and common.is_config_like(prog, fi, a[1])):
                    bad = "a long-lived Config (%s)" % prov.show(a)
                elif a[0] == "global" or (root[0] == "global" and root[1] not in ("request",)):
                    if not common.is_fresh(a):
                        bad = "module-level state (%s)" % prov.show(a)
            fld = desc[len("store self."):] if desc.startswith("store self.") else ""
            if bad and bad.startswith("the long-lived") and fld.isidentifier() and not _field_read(prog, fld):
                ck.ok("C13.3", "%s: %s" % (q.fn(fi), desc), "write-only field: nothing in the package reads self.%s (a diagnostic trace, "
                      "not state that later requests depend on)" % fld, q.loc(fi, n))
                continue
            if bad:
                ck.bad("C13.3", "%s: %s" % (q.fn(fi), desc),
                       "serving a request modifies %s: later or concurrent requests can observe it" % bad, q.loc(fi, n))
            else:
                ck.ok("C13.3", "%s: %s" % (q.fn(fi), desc), "receiver %s is per-request" % prov.show(t)[:80], q.loc(fi, n))
    common.check_no_shared_mutable(ck, "C13.3")
    ck.floor("C13.3", 8)

    # ---- C13.4 form follows the request -----------------------------------------------------------------
    fs = prog.func(SRV, DISP + "._marshaled_single_dispatch")
    fv = prog.func(SRV, "validate_request")
    fd = prog.func(SRV, DISP + "._dispatch")

    def adapter_ok(fi, t, server_cfg_pred, depth=0):
        """t = Phi{server config, server config.copy()} exactly, both derived from this function's own server config;
        or a call adapter(request, <server config>) of a package function whose returns have that shape"""
        alts = prov.alts(t)
        if depth == 0 and len(alts) == 1:
            a = next(iter(alts))
            if a[0] == "call" and a[1][0] == "global" and (SRV + "." + a[1][1]) in prog.funcs and len(a[2]) == 2 and server_cfg_pred(a[2][1]) \
                    and a[2][0][0] in ("param", "elem"):
                hf = prog.funcs[SRV + "." + a[1][1]]
                hg = cfg_of(hf)
                rets = [n for n in hg.live_nodes() if n.kind == "return" and n.ast is not None and n.ast.value is not None]
                rt = None
                for rn in rets:
                    x = prov.origin(hg, rn, rn.ast.value)
                    rt = x if rt is None else ("phi", frozenset(prov.alts(rt) | prov.alts(x)))
                if rt is not None and adapter_ok(hf, rt, lambda z: z == ("param", hf.params[1]), 1):
                    adapter_helpers.add(hf.fq)
                    return True
                return False
        plain = [a for a in alts if server_cfg_pred(a)]
        copies = [a for a in alts if a[0] == "call" and a[1][0] == "attr" and a[1][2] == "copy" and server_cfg_pred(a[1][1])]
        return len(plain) >= 1 and len(copies) >= 1 and len(plain) + len(copies) == len(alts)

    all_fault_sites = common.fault_sites(prog)
    adapter_helpers = set()
    for fi, pred, exempt in (
            (fs, lambda a: q.self_attr(a, "json_config"), None),
            (fv, lambda a: a == ("param", fv.params[1]), "version"),
            (fd, None, None)):
        g = cfg_of(fi)
        dom = dominators(g)
        fsites = [st_ for st_ in all_fault_sites if st_.fi.fq == fi.fq]
        sites = [(st_.node, st_.call, st_) for st_ in fsites] + \
            [(n, c, None) for (n, c) in q.call_sites(prog, fi, lambda r, c: q.is_func(r, "jsonrpc.dump")) if kwarg(c, "is_response", 4) is not None]
        for (n, c, fsite) in sites:
            label = "%s: %s config=" % (q.fn(fi), ("Fault(%s)" % fsite.code()) if fsite is not None else "jsonrpclib.dump(...)")
            if fsite is not None:
                t = fsite.origin("config", 3)
                ce = fsite.expr("config", 3)
            else:
                ce = kwarg(c, "config", 6)
                t = prov.origin(g, n, ce) if ce is not None else None
            if ce is None:
                ck.bad("C13.4", label, "response constructor without config=: the reply is built with the shared DEFAULT "
                       "configuration, not the form of the request", q.loc(fi, n))
                continue
            if fi is fv:
                # exempt: non-object entry, entry without any version marker (answered in the server's form)
                ex = False
                for d in dom[n.id]:
                    b = g.nodes[d]
                    if b.kind == "branch" and b.polarity is False and isinstance(b.test, ast.Call) and dump(b.test.func) == "isinstance":
                        ex = True
                    if b.kind == "branch" and b.polarity is False:
                        tv = prov.origin(g, b, b.test)
                        if tv[0] == "call" and tv[1] == ("global", "get_version"):
                            ex = True
                if ex:
                    ck.ok("C13.4", label + " [no version marker]", "exempt: entry has no version to follow", q.loc(fi, n))
                    continue
                # a site reached only when the entry HAS a "jsonrpc" member: the adapter is the server configuration itself
                marked = any(g.nodes[d].kind == "branch" and g.nodes[d].polarity is True and dump(g.nodes[d].test) == "'jsonrpc' in %s" % fv.params[0]
                             for d in dom[n.id])
                if marked and t is not None and all(pred(a) for a in prov.alts(t)):
                    ck.ok("C13.4", label + " [entry with a jsonrpc member]", "the server's own configuration", q.loc(fi, n))
                    continue
            if fi is fd:
                # _dispatch(method, params, config): `config or self.json_config`, callers pass the adapter
                # `config or self.json_config` (also spelled `if not config: config = self.json_config`, which the normaliser
                # rewrites to the same term) or the parameter itself: the caller's configuration wins whenever it is given
                okk = all(a == ("or", (("param", "config"), ("attr", ("param", "self"), "json_config"))) or a == ("param", "config")
                          for a in prov.alts(t))
                ck.require(okk, "C13.4", label, "uses the request-specific config handed by the caller",
                           "a reply of _dispatch is built with %s instead of the request-specific configuration" % prov.show(t),
                           q.loc(fi, n))
                continue
            ck.require(adapter_ok(fi, t, pred), "C13.4", label, "config = %s" % prov.show(t),
                       "the reply is built with %s: not the per-request adapter {server config | private copy with "
                       "version 1.0} computed from this request" % prov.show(t), q.loc(fi, n))
    # replies that cannot follow a request (unparsable text, empty request, failure of the whole marshaling, failure of the HTTP
    # handler) are built in the server's own form: their Fault carries the server's configuration itself
    covered = set([fs.fq, fv.fq, fd.fq])
    for st_ in all_fault_sites:
        if st_.fi.fq in covered:
            continue
        t = st_.origin("config", 3)
        own = t is not None and all(q.self_attr(a, "json_config") or
                                    (a[0] == "call" and a[1] == ("global", "getattr") and len(a[2]) >= 2 and a[2][1] == ("const", "json_config"))
                                    for a in prov.value_alts(t))
        ck.require(own, "C13.4", "%s: Fault(%s) config=" % (q.fn(st_.fi), st_.code()), "the server's own configuration",
                   "the reply Fault(%s) of %s is built with %s: not the configuration of this server (a server configured for 1.0 answers "
                   "in the form of the shared DEFAULT configuration)" % (st_.code(), st_.fi.name, prov.show(t) if t is not None else "no config= at all"),
                   q.loc(st_.fi, st_.node))
    # callers of _dispatch pass the adapter; the adapter is guarded by the request's own members
    gs = cfg_of(fs)
    for (n, c, r) in common.callees(prog, fs):
        if r.fq == fd.fq:
            args = c.args[1:] if call_name(c) == "enqueue" else c.args
            ce = args[2] if len(args) > 2 else kwarg(c, "config")
            t = prov.origin(gs, n, ce) if ce is not None else None
            ck.require(t is not None and adapter_ok(fs, t, lambda a: q.self_attr(a, "json_config")), "C13.4",
                       "%s: %s(..., config)" % (q.fn(fs), call_name(c)), "passes the adapter",
                       "_dispatch is not given the request-specific configuration (%s)" % (prov.show(t) if t else "nothing"),
                       q.loc(fs, n))
    guard_fns = [(fs, fs.params[1]), (fv, fv.params[0])]
    if adapter_helpers:
        guard_fns = [(prog.funcs[h], prog.funcs[h].params[0]) for h in sorted(adapter_helpers)] + \
            [(f_, r_) for (f_, r_) in guard_fns if any(isinstance(x, ast.Call) and isinstance(x.func, ast.Attribute) and x.func.attr == "copy" and not x.args
                                                       for x in ast.walk(f_.node))]
    for (fi, req) in guard_fns:
        g = cfg_of(fi)
        dom = dominators(g)
        copies = [n for n in g.live_nodes() if n.kind == "stmt" and isinstance(n.ast, ast.Assign)
                  and isinstance(n.ast.value, ast.Call) and isinstance(n.ast.value.func, ast.Attribute)
                  and n.ast.value.func.attr == "copy" and not n.ast.value.args]
        if not copies:
            ck.bad("C13.4", "%s: no per-request adapter" % q.fn(fi),
                   "no 1.0-compatibility copy of the configuration is derived from the request in this function: its "
                   "replies cannot follow the form of a 1.0 request", q.loc(fi, fi.node))
            continue
        for n in copies:
            guard = [g.nodes[d] for d in dom[n.id] if g.nodes[d].kind == "branch" and (
                (g.nodes[d].polarity is True and dump(g.nodes[d].test) == "'jsonrpc' not in %s" % req) or
                (g.nodes[d].polarity is False and dump(g.nodes[d].test) == "'jsonrpc' in %s" % req))]
            ck.require(bool(guard), "C13.4", "%s: copy guarded by the request" % q.fn(fi),
                       "copy made only when \"jsonrpc\" is absent from this request",
                       "the 1.0 compatibility copy is not guarded by `\"jsonrpc\" not in %s`: the form of the reply does not "
                       "follow the request" % req, q.loc(fi, n))
            # the other conjuncts of the guard compare the server's version with a constant: for a 2.0 server (every spelling
            # of 2.0 a configuration may hold) they must all hold, else a 2.0 server never adapts to a 1.0 request
            import operator as _op
            OPS = {ast.Lt: _op.lt, ast.LtE: _op.le, ast.Gt: _op.gt, ast.GtE: _op.ge, ast.Eq: _op.eq, ast.NotEq: _op.ne}
            for d_ in dom[n.id]:
                b = g.nodes[d_]
                if b.kind != "branch" or not (isinstance(b.test, ast.Compare) and len(b.test.ops) == 1 and type(b.test.ops[0]) in OPS):
                    continue
                l_, r_ = b.test.left, b.test.comparators[0]
                side = None
                if isinstance(l_, ast.Attribute) and l_.attr == "version" and isinstance(r_, ast.Constant) and isinstance(r_.value, (int, float)):
                    side = lambda v, c=r_.value, o=OPS[type(b.test.ops[0])]: o(v, c)
                elif isinstance(r_, ast.Attribute) and r_.attr == "version" and isinstance(l_, ast.Constant) and isinstance(l_.value, (int, float)):
                    side = lambda v, c=l_.value, o=OPS[type(b.test.ops[0])]: o(c, v)
                if side is None:
                    continue
                holds = all(side(v) == b.polarity for v in (2.0, 2))
                ck.require(holds, "C13.4", "%s: the adapter is made for a 2.0 server (`%s`%s)" % (q.fn(fi), dump(b.test), "" if b.polarity else " false"),
                           "true for version 2.0",
                           "the 1.0-compatibility copy is made only when `%s` is %s, which does not hold for a server configured with version 2.0: "
                           "such a server answers 1.0 requests in 2.0 form" % (dump(b.test), b.polarity), q.loc(fi, b))
            var = n.ast.targets[0].id if isinstance(n.ast.targets[0], ast.Name) else None
            sets = [m for m in g.live_nodes() if m.kind == "stmt" and isinstance(m.ast, ast.Assign)
                    and dump(m.ast.targets[0]) == "%s.version" % var and n.id in dom[m.id]]
            okv = sets and all(isinstance(m.ast.value, ast.Constant) and float(m.ast.value.value) == 1.0 for m in sets)
            ck.require(bool(okv), "C13.4", "%s: copy.version = 1.0" % q.fn(fi), "the copy is switched to version 1.0",
                       "the compatibility copy is not set to version 1.0", q.loc(fi, n))
    ck.floor("C13.4", 12)

    # ---- C13.5 version switches -------------------------------------------------------------------------
    n5 = common.check_envelopes(ck, "C13.5", prog, ("response", "error"))
    ck.stat("envelope_cells", n5)

    # ---- C13.6 the caller's Config reaches every layer -----------------------------------------------------------------
    common.check_config_forwarding(ck, "C13.6")
    ck.floor("C13.6", 6)

    # ---- C13.7 dump() takes the form from the configuration it is given (shared with C14.4) --------------------------------
    from rules import c14
    common.import_rules(ck, c14, {"C14.4": "C13.7"})
    ck.floor("C13.7", 10)
    common.check_config_defaults(ck, "C13.6", ("version",))

    # ---- C13.8 nothing escapes into the request-less fault of do_POST (shared with C02.1) ----------------------------------
    from rules import c02 as _c02e, common as _cme
    _cme.import_rules(ck, _c02e, {"C02.1": "C13.8", "C02.6": "C13.8"})  # (C02.6: the serialisation cannot fail into the fallback, which answers in the server's form)
    ck.floor("C13.8", 10)

    # ---- C13.4 (continued) what the single dispatch hands back is already a finished reply ------------------------------------
    # Every result of _marshaled_single_dispatch is None or the output of jsonrpclib.dump(..., config=<per-request config>): an
    # object handed back as it is (a Fault returned by _dispatch) would be dumped by the caller's `isinstance(.., Fault)` branch
    # with the Fault's own configuration - DEFAULT for a Fault built by application code - whatever the request's form.
    fsd = prog.func(SRV, DISP + "._marshaled_single_dispatch")
    n_ret = 0
    for (rn_, e_) in q.return_sources(fsd):
        n_ret += 1
        if e_ is None or q.is_none_expr(e_):
            continue
        fin = isinstance(e_, ast.Call) and (dump(e_.func) in ("jsonrpclib.dump", "jsonrpclib.jsonrpc.dump", "dump") or
                                            (isinstance(e_.func, ast.Attribute) and e_.func.attr in ("dump", "response")))
        ck.require(fin, "C13.4", "%s: result `%s`" % (q.fn(fsd), dump(e_)[:40]), "None or a dumped reply",
                   "_marshaled_single_dispatch hands `%s` back undumped: the caller's Fault branch then builds the reply with the object's own "
                   "configuration instead of the one derived from the request (a 1.0 request is answered in 2.0 form, or the reverse)" % dump(e_)[:50],
                   q.loc(fsd, rn_))
    if n_ret < 2:
        raise AnalysisError("anchor vanished: results of _marshaled_single_dispatch (found %d)" % n_ret)

    # ---- C13.9 no Fault object is dumped with its own configuration (shared with C03.3) -----------------------------------------
    from rules import c03 as _c03f
    common.import_rules(ck, _c03f, {"C03.3": "C13.9"})
    ck.floor("C13.9", 2)
