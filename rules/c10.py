"""C10 Pool concurrency is bounded by max_threads yet grows to it when work waits."""
import ast
from vlib.model import AnalysisError, dump, kwarg, call_name
from vlib.cfg import cfg_of, node_calls, node_exprs, stmt_may_raise
from vlib.flow import dominators, Explorer, states_at
from vlib import prov, q, shape
from vlib.locks import ClassLocks
from rules import common

META = {
    "explanation": (
        "Decides: C10.1 threading.Thread(...).start() occurs only in __start_thread, dominated by the `threads < max` edge "
        "(normalised; `>` instead of `>=` is a violation) and by the stop-flag test, with the thread counter incremented in "
        "the same critical section and decremented on the start-failure path; C10.2 the constructor, abstractly evaluated "
        "over valid, out-of-range and non-numeric arguments, raises ValueError for max_threads < 1 / non-numeric and stores "
        "int(max_threads) and min_threads clamped into [0, max]; C10.3 in enqueue the test `pending > threads` - after the "
        "put and the pending increment, inside the lock - guards __start_thread(); C10.4 start(), abstractly evaluated over "
        "queue sizes and bounds, returns normally and issues at least clamp(qsize, min, max) __start_thread() calls (the bound itself is __start_thread's, C10.1); C10.5 (snapshot rule) every decision "
        "that creates or retires a worker is taken under the pool lock on inputs read under that lock, all of whose writers "
        "hold it; C10.6 no blocking primitive is called while the pool lock is held; C10.7 the only non-stop retirement is "
        "guarded by `threads > min`, and every exit of the worker (normal, retirement, sentinel, exceptional) decrements the "
        "thread counter exactly once. C10.8 the handler that contains a failing task in the worker only hands the user-supplied objects (exception, callable) on - logger arguments, getattr with a default - and never evaluates them (attribute load, eager formatting, call): otherwise a second exception escapes the handler and the worker dies, leaving fewer than min_threads workers. C10.9 (imported from C11.3) stop() queues one sentinel per registered thread, joins the workers and only then clears the thread list and drains the queue: sentinels that nobody consumed do not survive into a restarted pool (where they would retire the new workers below min_threads)."),
    "does_not_decide": "the instantaneous bounds and the progress of dependent tasks over all interleavings.",
    "rules": {"C10.9": "imported C11.3 (stop protocol ordering)",
              "C10.1": "who-may-create + dominance with normalised comparisons", "C10.2": "shape interpreter over argument classes",
              "C10.3": "dominance + lockset", "C10.4": "shape interpreter with a stubbed __start_thread", "C10.5": "E5 snapshot rule (reads, writers, locksets)",
              "C10.6": "E5 blocking-call table under lockset", "C10.7": "exit-complete event-count exploration",
              "C10.8": "syntax-directed use classification of the containment handler"},
    "assumptions": ["queue.Queue.put/get are the only writers of the queue size; Event.set/clear of the flag"],
}

TP = "threadpool"
# snapshot-rule writers outside the lock that were triaged as harmless (function, statement text) -> reason
TRIAGED_WRITERS = {
    ("start", "write of self.__nb_pending_task"): "only over-counts the pending tasks: growth needs pending >= true count",
    ("stop", "self._done_event.set()"): "the flag is set before stop takes the lock to snapshot the threads (ordering is rule C09.5)",
    ("start", "self._done_event.clear()"): "start clears the flag before any worker exists (ordering is rule C09.6)",
}


def writer_label(node, item):
    """how a writer of a shared item is named in reports and in the triage table: by the operation, not by the spelling
    of its arguments (`put(x, True, t)` and `put(x, block=True, timeout=t)` are the same writer)"""
    for c in node_calls(node):
        f = dump(c.func)
        if f.startswith("self._queue.") or f.startswith("self._done_event."):
            return f + "()"
    return "write of " + item


def norm_cmp(test, polarity):
    """(left text, op, right text) with op in < <= == != after applying polarity; None if not a simple comparison"""
    if not (isinstance(test, ast.Compare) and len(test.ops) == 1):
        return None
    op = type(test.ops[0]).__name__
    l, r = dump(test.left), dump(test.comparators[0])
    neg = {"Lt": "GtE", "LtE": "Gt", "Gt": "LtE", "GtE": "Lt", "Eq": "NotEq", "NotEq": "Eq"}
    if op not in neg:
        return None
    if not polarity:
        op = neg[op]
    if op in ("Gt", "GtE"):
        l, r = r, l
        op = {"Gt": "Lt", "GtE": "LtE"}[op]
    return (l, {"Lt": "<", "LtE": "<=", "Eq": "==", "NotEq": "!="}[op], r)


def worker_may_raise(st):
    if isinstance(st, ast.withitem):
        return dump(st.context_expr) != "self.__lock"
    if isinstance(st, ast.AugAssign) and isinstance(st.target, ast.Attribute) and dump(st.target.value) == "self" \
            and isinstance(st.value, ast.Constant):
        return False
    if isinstance(st, ast.Assign) and isinstance(st.targets[0], ast.Tuple) and len(st.targets[0].elts) == 4 and dump(st.value) == "task":
        return False
    if isinstance(st, ast.Assign) and isinstance(st.targets[0], ast.Name) and isinstance(st.value, ast.BinOp) \
            and all(isinstance(x, ast.Attribute) and dump(x.value) == "self" for x in (st.value.left, st.value.right)):
        return False
    return stmt_may_raise(st)


def _uncounts_dropped_tasks(fi, aug):
    """`self.__nb_pending_task -= N` where N is a local that starts at 0 and is stepped by one only for an item taken off the queue
    (`x = self._queue.get_nowait()` / `.get(...)`) that an identity test told from the stop marker (`x is not self._done_event`)"""
    if not isinstance(aug.value, ast.Name):
        return False
    nm = aug.value.id
    inits = [st for st in ast.walk(fi.node) if isinstance(st, ast.Assign) and any(isinstance(t, ast.Name) and t.id == nm for t in st.targets)]
    steps = [st for st in ast.walk(fi.node) if isinstance(st, ast.AugAssign) and isinstance(st.target, ast.Name) and st.target.id == nm]
    if len(inits) != 1 or not (isinstance(inits[0].value, ast.Constant) and inits[0].value.value == 0) or not steps:
        return False
    taken = set()
    for st in ast.walk(fi.node):
        if isinstance(st, ast.Assign) and len(st.targets) == 1 and isinstance(st.targets[0], ast.Name) and isinstance(st.value, ast.Call) and \
                dump(st.value.func) in ("self._queue.get_nowait", "self._queue.get"):
            taken.add(st.targets[0].id)
    for stp in steps:
        if not (isinstance(stp.op, ast.Add) and isinstance(stp.value, ast.Constant) and stp.value.value == 1):
            return False
        guard = None
        for iff in ast.walk(fi.node):
            if isinstance(iff, ast.If) and any(x is stp for b in iff.body for x in ast.walk(b)):
                t = iff.test
                if isinstance(t, ast.Compare) and len(t.ops) == 1 and isinstance(t.ops[0], ast.IsNot) and isinstance(t.left, ast.Name) and \
                        t.left.id in taken and dump(t.comparators[0]) == "self._done_event":
                    guard = iff
        if guard is None:
            return False
    return True


def check(ck):
    prog = ck.prog
    ci = prog.cls(TP, "ThreadPool")
    cl = ClassLocks(prog, ci)
    fst = prog.func(TP, "ThreadPool.__start_thread")
    fenq = prog.func(TP, "ThreadPool.enqueue")
    frun = prog.func(TP, "ThreadPool.__run")
    fstart = prog.func(TP, "ThreadPool.start")
    finit = prog.func(TP, "ThreadPool.__init__")

    # ---- C10.1 bound -----------------------------------------------------------------------------
    creators = []
    for fi in prog.module_funcs(TP):
        g = cfg_of(fi)
        for n in g.live_nodes():
            for c in node_calls(n):
                if dump(c.func) == "threading.Thread":
                    creators.append((fi, n))
    ck.require([f.fq for (f, _n) in creators] == [fst.fq], "C10.1", "threadpool: who creates threads", "__start_thread only",
               "threads are created in %s: only __start_thread checks the bound" % [q.fn(f) for (f, _n) in creators], "jsonrpclib/threadpool.py")
    g = cfg_of(fst)
    d = dominators(g)
    starts = [n for n in g.live_nodes() for c in node_calls(n) if call_name(c) == "start" and isinstance(c.func.value, ast.Name)]
    if len(starts) != 1:
        raise AnalysisError("anchor vanished: thread.start() in __start_thread")
    sn = starts[0]
    bound = [norm_cmp(g.nodes[i].test, g.nodes[i].polarity) for i in d[sn.id] if g.nodes[i].kind == "branch"]
    ck.require(("self.__nb_threads", "<", "self._max_threads") in bound, "C10.1", "%s: start dominated by `threads < max`" % q.fn(fst),
               "nb_threads < max_threads", "a thread can be started when the thread count is not below max_threads (guards: %s)" % [b for b in bound if b],
               q.loc(fst, sn))
    flag = [g.nodes[i] for i in d[sn.id] if g.nodes[i].kind == "branch" and dump(g.nodes[i].test) == "self._done_event.is_set()" and not g.nodes[i].polarity]
    ck.require(bool(flag), "C10.1", "%s: start dominated by the stop-flag test" % q.fn(fst), "not stopped",
               "a thread can be started while the pool is stopped", q.loc(fst, sn))
    # ... and by nothing else: whenever the pool runs and is below its maximum, a request for a worker is honoured
    others = []
    for i in d[sn.id]:
        b_ = g.nodes[i]
        if b_.kind != "branch":
            continue
        nc_ = norm_cmp(b_.test, b_.polarity)
        if nc_ == ("self.__nb_threads", "<", "self._max_threads") or (dump(b_.test) == "self._done_event.is_set()" and not b_.polarity):
            continue
        others.append("%s%s" % ("" if b_.polarity else "not ", dump(b_.test)))
    ck.require(not others, "C10.1", "%s: nothing but the bound and the stop flag can refuse a worker" % q.fn(fst), "two guards only",
               "thread creation is additionally guarded by %s: with fewer than max_threads workers and the pool running, a task that needs a "
               "worker can be refused one (it then waits for a running task to finish, or for ever)" % others, q.loc(fst, sn))
    incs = [n for n in g.live_nodes() if n.kind == "stmt" and isinstance(n.ast, ast.AugAssign) and dump(n.ast.target) == "self.__nb_threads"
            and isinstance(n.ast.op, ast.Add)]
    decs = [n for n in g.live_nodes() if n.kind == "stmt" and isinstance(n.ast, ast.AugAssign) and dump(n.ast.target) == "self.__nb_threads"
            and isinstance(n.ast.op, ast.Sub)]
    same_cs = len(incs) == 1 and "__lock" in cl.held(fst, incs[0]) and "__lock" in cl.held(fst, sn) and incs[0].withs == sn.withs
    ck.require(same_cs, "C10.1", "%s: counter incremented in the same critical section" % q.fn(fst), "increment and start under one lock region",
               "the thread counter is not incremented in the critical section that starts the thread", q.loc(fst, sn))
    hd = [h for h in g.live_nodes() if h.kind == "handler"]
    fail_dec = [n for n in decs if any(sub is n.ast for h in hd for st_ in h.ast.body for sub in ast.walk(st_))]
    # the count must be exact on the start-failure path: either the increment precedes start() and the failure handler takes
    # it back (the decrement is then dominated by the increment: it never compensates an increment that did not happen), or
    # the increment follows a successful start() and nothing is taken back
    inc_first = len(incs) == 1 and incs[0].id in d[sn.id]
    if inc_first:
        okc = len(fail_dec) == 1 and len(decs) == 1 and incs[0].id in d[fail_dec[0].id]
        why = "the thread counter is not restored exactly once when the thread fails to start"
    else:
        okc = len(incs) == 1 and sn.id in d[incs[0].id] and not decs
        why = "the thread counter is incremented only after start() succeeded, yet the failure path decrements it (or the increment is " \
              "not tied to the start): one failed start leaves the count one too low and the pool can exceed max_threads"
    ck.require(okc, "C10.1", "%s: counter exact on the start-failure path" % q.fn(fst),
               "increment before start() + one compensating decrement in the failure handler", why, q.loc(fst, sn))

    # ---- C10.2 argument validation ------------------------------------------------------------------------
    n2 = 0
    maxes = [(0, None), (-1, None), (1, 1), (3, 3), ("3", 3), ("x", None), (None, None), (2.5, 2), (True, 1)]
    mins = [(-1, -1), (0, 0), (1, 1), (2, 2), (5, 5), ("x", None), (None, None), ("2", 2)]
    if ck.tier == "thorough":
        maxes += [(2, 2), (10, 10), (1000, 1000), (-100, None), ("0", None), ("-2", None), ("", None), (0.0, None), (0.9, None), (1.0, 1), (1.9, 1),
                  (7.99, 7), ("1", 1), (" 4 ", 4), ("2.5", None), (False, None), ([], None), ((3,), None)]
        mins += [(-100, -100), (3, 3), (10, 10), (1000, 1000), ("0", 0), ("-1", -1), (" 1 ", 1), (0.0, 0), (1.5, 1), (2.9, 2), (True, 1), (False, 0),
                 ("1.5", None), ("", None), ([], None)]
    for (mx, mx_ok) in maxes:
        for (mn, mn_ok) in mins:
            holder = []

            def mk():
                o = shape.Obj("ThreadPool", {})
                holder[:] = [o]
                return o
            ev = shape.Evaluator(prog, TP, lenient=True)
            res = ev.run(finit, {"max_threads": shape.K(mx), "min_threads": shape.K(mn)}, mk)
            want_err = mx_ok is None or mn_ok is None
            for (_tr, out) in res:
                n2 += 1
                desc = "max_threads=%r min_threads=%r" % (mx, mn)
                if want_err:
                    ck.require(out[0] == "raise" and out[1] == "ValueError", "C10.2", "%s: %s" % (q.fn(finit), desc), "ValueError",
                               "ThreadPool(%s) %s; the documented behaviour is ValueError" % (desc, "raises " + out[1] if out[0] == "raise" else "is accepted"),
                               q.loc(finit, finit.node))
                else:
                    want_min = min(max(mn_ok, 0), mx_ok)          # int(min_threads) clamped into [0, max]
                    o = holder[0]
                    got_max = o.attrs.get("_max_threads")
                    got_min = o.attrs.get("_min_threads")
                    okk = out[0] == "return" and got_max == shape.K(mx_ok) and got_min == shape.K(want_min)
                    ck.require(okk, "C10.2", "%s: %s" % (q.fn(finit), desc), "stores max=%r min=%r" % (mx_ok, want_min),
                               "ThreadPool(%s) %s max=%r min=%r; required: max=%r (an integer), min=%r (clamped into [0, max])" % (
                                   desc, "stores" if out[0] == "return" else "raises %s;" % out[1], got_max, got_min, mx_ok, want_min),
                               q.loc(finit, finit.node))
    ck.stat("constructor_cases", n2)
    ck.floor("C10.2", 60)

    # ---- C10.3 growth rule ----------------------------------------------------------------------------------
    g = cfg_of(fenq)
    d = dominators(g)
    stc = [n for n in g.live_nodes() for c in node_calls(n) if dump(c.func) == "self.__start_thread"]
    puts = [n for n in g.live_nodes() for c in node_calls(n) if dump(c.func) in common.QUEUE_PUTS]
    incp = [n for n in g.live_nodes() if n.kind == "stmt" and isinstance(n.ast, ast.AugAssign) and dump(n.ast.target) == "self.__nb_pending_task"
            and isinstance(n.ast.op, ast.Add)]        # (a compensating `-= 1` on a failure path is examined by C10.7b)
    if len(stc) != 1 or len(puts) < 1 or len(incp) != 1:
        raise AnalysisError("anchor vanished: put / pending increment / __start_thread in enqueue")
    guards = [(g.nodes[i], norm_cmp(g.nodes[i].test, g.nodes[i].polarity)) for i in d[stc[0].id] if g.nodes[i].kind == "branch"]
    # `pending > threads`; `pending >= threads` only starts a worker earlier (the bound is enforced in __start_thread)
    GROW = (("self.__nb_threads", "<", "self.__nb_pending_task"), ("self.__nb_threads", "<=", "self.__nb_pending_task"))
    okk = [b for (b, nc) in guards if nc in GROW]
    ck.require(bool(okk), "C10.3", "%s: growth test `pending > threads`" % q.fn(fenq), "guards __start_thread()",
               "a new worker is not started exactly when more tasks are pending than threads exist (guards: %s)" % [nc for (_b, nc) in guards], q.loc(fenq, stc[0]))
    for b in okk:
        ck.require("__lock" in cl.held(fenq, b) and "__lock" in cl.held(fenq, stc[0]), "C10.3", "%s: growth decision under the lock" % q.fn(fenq),
                   "inside `with self.__lock`", "the growth decision is taken outside the pool lock", q.loc(fenq, b))
        ck.require(incp[0].id in d[b.id] and common.must_pass(g, incp[0].id, [p_.id for p_ in puts]), "C10.3", "%s: put -> pending += 1 -> growth test" % q.fn(fenq),
                   "ordered by dominance", "the growth test does not follow the put and the pending increment: the task is counted (and the "
                   "decision whether a worker is needed taken) before it is in the queue, so a worker that evaluates its retirement in "
                   "between sees an empty queue and leaves - the task then waits for a worker nobody starts", q.loc(fenq, b))
        same_cs = all(bool(p_.withs) and p_.withs == incp[0].withs == b.withs for p_ in puts)
        ck.require(same_cs, "C10.3", "%s: put, count and growth decision in one critical section" % q.fn(fenq), "same `with self.__lock`",
                   "the put, the pending increment and the growth decision are not made in one critical section of the pool lock: a worker's "
                   "retirement test (queue size against idle workers, under that lock) can run between them", q.loc(fenq, puts[0]))
    ck.require(all(nc is None or nc in GROW for (_b, nc) in guards), "C10.3",
               "%s: no other comparison guards the growth" % q.fn(fenq), "single guard", "additional guards restrict the growth: %s" % [nc for (_b, nc) in guards],
               q.loc(fenq, stc[0]))

    # ---- C10.4 start count -------------------------------------------------------------------------------------
    n4 = 0
    grid = ((0, 1, 2, 5), (0, 1, 2), (1, 2, 3)) if ck.tier != "thorough" else (tuple(range(0, 13)), tuple(range(0, 7)), tuple(range(1, 8)))
    for qs in grid[0]:
        for mn in grid[1]:
            for mx in grid[2]:
                if mn > mx:
                    continue
                count = [0]

                def stub(*a, **k):
                    count[0] += 1
                    return shape.K(True)
                ev = shape.Evaluator(prog, TP, lenient=True, stubs={"threadpool.ThreadPool.__start_thread": stub})

                def mk(qs=qs, mn=mn, mx=mx):
                    return shape.Obj("ThreadPool", {
                        "_done_event": shape.Opaque("Event", {"is_set()": shape.K(True), "clear()": shape.K(None)}),
                        "_queue": shape.Opaque("Queue", {"qsize()": shape.K(qs)}),
                        "_max_threads": shape.K(mx), "_min_threads": shape.K(mn),
                        "_ThreadPool__nb_pending_task": shape.K(0)})
                res = ev.run(fstart, {}, mk)
                want = max(mn, min(qs, mx))
                n4 += 1
                # (a lower bound: __start_thread itself refuses to exceed max_threads - C10.1 -, so asking it more often than needed
                # only creates idle workers within the bound; asking less often leaves a waiting task or the minimum unserved)
                raised = [o for (_d, o) in res if o[0] == "raise"]
                ck.require(not raised, "C10.4", "%s: qsize=%d min=%d max=%d returns" % (q.fn(fstart), qs, mn, mx), "start() returns normally",
                           "start() with %d queued tasks, min=%d, max=%d raises %s" % (qs, mn, mx, raised[0][1] if raised else ""),
                           q.loc(fstart, fstart.node))
                ck.require(len(res) == 1 and count[0] >= want, "C10.4", "%s: qsize=%d min=%d max=%d" % (q.fn(fstart), qs, mn, mx),
                           "%d __start_thread() calls" % count[0],
                           "start() with %d queued tasks, min=%d, max=%d issues %d __start_thread() calls; at least clamp(qsize, min, max) = %d "
                           "are required" % (qs, mn, mx, count[0], want), q.loc(fstart, fstart.node))
    ck.floor("C10.4", 40)

    # ---- C10.5 snapshot rule ---------------------------------------------------------------------------------------
    STATE = {"queue size": lambda c: dump(c.func) in ("self._queue.qsize", "self._queue.empty", "self._queue.full"),
             "stop flag": lambda c: dump(c.func) == "self._done_event.is_set"}
    WRITERS = {"queue size": ("self._queue.put", "self._queue.get", "self._queue.get_nowait", "self._queue.put_nowait"),
               "stop flag": ("self._done_event.set", "self._done_event.clear")}
    COUNTERS = ("__nb_threads", "__nb_active_threads", "__nb_pending_task")
    writers = {}     # state item -> [(fi, node, held)]
    for fi in ci.methods.values():
        if fi.name == "__init__":
            continue
        gg = cfg_of(fi)
        for n in gg.live_nodes():
            for c in node_calls(n):
                for item, names in WRITERS.items():
                    if dump(c.func) in names:
                        writers.setdefault(item, []).append((fi, n, cl.held(fi, n)))
        for (n, attr, kind, txt) in cl.accesses(fi):
            if kind == "w" and attr in COUNTERS:
                writers.setdefault("self." + attr, []).append((fi, n, cl.held(fi, n)))
    decisions = []    # (fi, branch node, description)
    g = cfg_of(fenq)
    for n in g.live_nodes():
        if n.kind == "branch" and n.polarity and norm_cmp(n.test, True) and "__nb_pending_task" in dump(n.test):
            decisions.append((fenq, n, "growth test"))
    g = cfg_of(fst)
    for n in g.live_nodes():
        if n.kind == "branch" and n.polarity and ("_max_threads" in dump(n.test) or "is_set" in dump(n.test)):
            decisions.append((fst, n, "start guard"))
    g = cfg_of(frun)
    dr_ = dominators(g)
    loop_ast = [w for w in ast.walk(frun.node) if isinstance(w, ast.While)]
    ret_nodes = [n for n in g.live_nodes() if n.kind == "return" and n.ast is not None and loop_ast and
                 any(sub is n.ast for sub in ast.walk(loop_ast[0])) and
                 not any(g.nodes[i].kind == "branch" and g.nodes[i].polarity and dump(g.nodes[i].test) == "task is self._done_event" for i in dr_[n.id])]
    retire = []
    for rn in ret_nodes:
        for i in dr_[rn.id]:
            b = g.nodes[i]
            if b.kind == "branch" and b.stmt is not None and not isinstance(b.stmt, ast.While) and b not in retire:
                retire.append(b)
    for n in retire:
        decisions.append((frun, n, "retirement test"))
    if len(decisions) < 4:
        raise AnalysisError("anchor vanished: worker creation/retirement decisions (found %d)" % len(decisions))
    reported = set()
    for (fi, bn, what) in decisions:
        gg = cfg_of(fi)
        held = cl.held(fi, bn)
        ck.require("__lock" in held, "C10.5", "%s: %s `%s` under the lock" % (q.fn(fi), what, dump(bn.test)[:50]), "decision under self.__lock",
                   "the %s is evaluated outside the pool lock" % what, q.loc(fi, bn))
        # inputs: state read in the test and in the definitions of the locals it uses
        reads = []     # (item, node where read)
        exprs = [(bn, bn.test)]
        rd = prov.rd_of(gg)
        for nm in [x.id for x in ast.walk(bn.test) if isinstance(x, ast.Name)]:
            for dn in rd.get(bn.id, {}).get(nm, ()):
                dnode = gg.nodes[dn]
                if dnode.kind == "stmt" and isinstance(dnode.ast, ast.Assign):
                    exprs.append((dnode, dnode.ast.value))
        for (node, e) in exprs:
            for sub in ast.walk(e):
                if isinstance(sub, ast.Call):
                    for item, pred in STATE.items():
                        if pred(sub):
                            reads.append((item, node))
                if isinstance(sub, ast.Attribute) and dump(sub.value) == "self" and sub.attr in COUNTERS:
                    reads.append(("self." + sub.attr, node))
        for (item, node) in reads:
            ck.require("__lock" in cl.held(fi, node), "C10.5", "%s: %s reads %s at `%s`" % (q.fn(fi), what, item, q.stmt_text(node)[:40]),
                       "input read under the lock",
                       "the %s uses a value of %s read outside the pool lock (`%s`): the decision is taken on a stale snapshot" % (what, item, q.stmt_text(node)[:60]),
                       q.loc(fi, node))
            for (wf, wn, wheld) in writers.get(item, []):
                if "__lock" in wheld:
                    continue
                wl = writer_label(wn, item)
                key = (wf.name, wl)
                if key in TRIAGED_WRITERS:
                    continue
                construct = "%s: %s reads %s; writer %s in %s runs outside the lock" % (q.fn(fi), what, item, wl, wf.name)
                if construct in reported:
                    continue
                reported.add(construct)
                ck.bad("C10.5", construct,
                       "the %s is decided on %s, which `%s` (in %s) changes without holding the pool lock: the snapshot the decision "
                       "is based on can be stale (a worker retires, or is not started, although a task is waiting)" % (
                           what, item, q.stmt_text(wn)[:60], wf.name), q.loc(fi, bn))
    ck.floor("C10.5", 8)

    # ---- C10.6 no blocking call while holding the pool lock ------------------------------------------------------------
    n6 = 0
    for fi in ci.methods.values():
        ordinal = {}
        for (n, c, kind) in cl.blocking_calls(fi):
            n6 += 1
            held = cl.held(fi, n)
            ordinal[kind] = ordinal.get(kind, 0) + 1
            ck.require("__lock" not in held, "C10.6", "%s: %s #%d" % (q.fn(fi), kind, ordinal[kind]), "called without the pool lock",
                       "the blocking call `%s` is made while holding the pool lock: every worker that needs the lock (to update its "
                       "counters, to retire) waits as long as this call blocks" % dump(c)[:60], q.loc(fi, n))
    # calls to own methods that block (clear -> join) while holding the lock
    blocking_methods = set(fi.name for fi in ci.methods.values() if cl.blocking_calls(fi))
    for fi in ci.methods.values():
        gg = cfg_of(fi)
        for n in gg.live_nodes():
            for c in node_calls(n):
                if isinstance(c.func, ast.Attribute) and dump(c.func.value) == "self" and c.func.attr in blocking_methods \
                        and c.func.attr not in ("enqueue", "stop", "__run"):
                    n6 += 1
                    ck.require("__lock" not in cl.held(fi, n), "C10.6", "%s: call of blocking method self.%s()" % (q.fn(fi), c.func.attr),
                               "called without the pool lock", "self.%s() blocks and is called while holding the pool lock" % c.func.attr, q.loc(fi, n))
    if n6 < 5:
        raise AnalysisError("anchor vanished: blocking calls in ThreadPool (found %d)" % n6)

    # ---- C10.7 retirement respects the minimum; exactly one decrement per worker exit -----------------------------------
    g = cfg_of(frun, may_raise=worker_may_raise)
    d = dominators(g)
    decs = set(n.id for n in g.live_nodes() if n.kind == "stmt" and isinstance(n.ast, ast.AugAssign) and dump(n.ast.target) == "self.__nb_threads"
               and isinstance(n.ast.op, ast.Sub))
    if len(decs) < 2:
        raise AnalysisError("anchor vanished: thread counter decrements in __run (found %d)" % len(decs))
    for nid in decs:
        ck.require("__lock" in cl.held(frun, g.nodes[nid]), "C10.7", "%s: `%s` #%d under the lock" % (q.fn(frun), q.stmt_text(g.nodes[nid]), sorted(decs).index(nid)),
                   "under self.__lock", "the thread counter is decremented outside the pool lock", q.loc(frun, g.nodes[nid]))
    outer_final = None
    for t in frun.node.body:
        if isinstance(t, ast.Try) and t.finalbody:
            outer_final = t
    in_final = set()
    if outer_final is not None:
        for n in g.live_nodes():
            if n.ast is not None and any(sub is n.ast or (n.kind in ("test", "branch") and sub is n.test) for st_ in outer_final.finalbody for sub in ast.walk(st_)):
                in_final.add(n.id)

    def on_node(node, facts, data):
        if node.id in decs:
            data = min(data + 1, 3)
        return [(facts, data)]
    ex = Explorer(g, on_node=on_node, init_data=0, heap_facts=False)
    seen = set()
    n7 = 0
    for st in ex.terminal:
        nid, facts, cnt = st
        par = ex.parent.get(st)
        if nid == g.raise_exit.id and par is not None and par[0] in in_final and g.nodes[par[0]].kind != "join":
            continue       # an exception raised by the clean-up code itself: outside this rule
        last = None
        for x in reversed(ex.witness(st)):
            if g.nodes[x].kind in ("return",) or (g.nodes[x].kind == "branch" and x not in in_final):
                last = g.nodes[x]
                break
        key = (nid == g.return_exit.id, cnt, last.id if last is not None else None)
        if key in seen:
            continue
        seen.add(key)
        n7 += 1
        kind = "normal" if nid == g.return_exit.id else "exceptional"
        ck.require(cnt == 1, "C10.7", "%s: %s exit via L%s with %d decrement(s) of the thread counter" % (q.fn(frun), kind, last.lineno if last is not None else "?", cnt),
                   "exactly one decrement", "a worker can terminate (%s exit) after %d decrements of the thread counter: the count of live workers "
                   "drifts (%s)" % (kind, cnt, "more workers than max_threads can be started" if cnt > 1 else "the pool believes a dead worker is alive and stops growing"),
                   q.loc(frun, last) if last is not None else "", ex.describe_path(st))
    ck.floor("C10.7", 4)
    # pending-task counter: +1 per queued task, -1 per executed task (pairing)
    for fi in ci.methods.values():
        if fi.name == "__init__":
            continue
        gg = cfg_of(fi)
        for n in gg.live_nodes():
            if n.kind == "stmt" and isinstance(n.ast, ast.AugAssign) and dump(n.ast.target) == "self.__nb_pending_task":
                if isinstance(n.ast.op, ast.Sub):
                    tries = [t for t in ast.walk(fi.node) if isinstance(t, ast.Try) and any(sub is n.ast for st_ in t.finalbody for sub in ast.walk(st_))]
                    okk = any(isinstance(c, ast.Call) and call_name(c) == "execute" for t in tries for st_ in t.body for c in ast.walk(st_))
                    if not okk and _uncounts_dropped_tasks(fi, n.ast):
                        ck.ok("C10.7b", "%s: `%s`" % (q.fn(fi), q.stmt_text(n)), "un-counts exactly the real tasks taken off the queue (stop markers "
                              "excluded by identity): they will never be executed", q.loc(fi, n))
                        continue
                    ck.require(okk, "C10.7b", "%s: `%s`" % (q.fn(fi), q.stmt_text(n)), "one decrement per executed task (finally of the try around execute)",
                               "the pending-task counter is decremented for something that was not an executed task (e.g. drained items, "
                               "which include uncounted stop sentinels): the counter can become negative and the pool stops growing",
                               q.loc(fi, n))
                elif isinstance(n.ast.op, ast.Add):
                    dd_ = dominators(gg)
                    puts_all = [m for m in gg.live_nodes() for c in node_calls(m) if dump(c.func) in common.QUEUE_PUTS]
                    puts_ = puts_all if puts_all and common.must_pass(gg, n.id, [m.id for m in puts_all]) else []
                    in_start = fi.name == "start"
                    ck.require(bool(puts_) or in_start, "C10.7b", "%s: `%s`" % (q.fn(fi), q.stmt_text(n)), "one increment per queued task",
                               "the pending-task counter is incremented without a task having been queued", q.loc(fi, n))
            elif n.kind == "stmt" and isinstance(n.ast, ast.Assign) and any(dump(t) == "self.__nb_pending_task" for t in n.ast.targets):
                exprs_ = [n.ast.value]
                for x_ in ast.walk(n.ast.value):
                    if isinstance(x_, ast.Name):
                        exprs_ += [st_.value for st_ in ast.walk(fi.node) if isinstance(st_, ast.Assign) and
                                   any(isinstance(t_, ast.Name) and t_.id == x_.id for t_ in st_.targets)]
                rebinds_ = sum(1 for x_ in ast.walk(n.ast.value) if isinstance(x_, ast.Name) for st_ in ast.walk(fi.node)
                               if isinstance(st_, ast.Assign) and any(isinstance(t_, ast.Name) and t_.id == x_.id for t_ in st_.targets))
                names_ = sum(1 for x_ in ast.walk(n.ast.value) if isinstance(x_, ast.Name))
                if fi.name == "start" and any(isinstance(x_, ast.Call) and call_name(x_) == "qsize" for e_ in exprs_ for x_ in ast.walk(e_)) and \
                        not any(isinstance(x_, ast.Call) and call_name(x_) in ("min", "max") for e_ in exprs_ for x_ in ast.walk(e_)) and rebinds_ <= names_:
                    # start() recomputing the count from the queue (a stopped pool executes nothing): whether the sum is exact is arithmetic
                    # over queue contents that the pairing rule cannot follow
                    raise AnalysisError("ThreadPool.start recomputes the pending-task counter from the queue size (`%s`): not modelled" % q.stmt_text(n)[:60])
                ck.bad("C10.7b", "%s: `%s`" % (q.fn(fi), q.stmt_text(n)), "the pending-task counter is overwritten instead of counted "
                       "(+1 per queued task, -1 per executed task)", q.loc(fi, n))
    # counters start at zero and move by exactly one: a worker / an executing task / a waiting task is one unit. (The thread and
    # active counters feed the bound `threads < max` and the idle count `threads - active`; a waiting task that is not counted, or
    # a decrement larger than the increment, makes the growth test `pending > threads` miss a waiting task.)
    finit_ = prog.func(TP, "ThreadPool.__init__")
    for ctr, policy in (("__nb_threads", "zero"), ("__nb_active_threads", "non-negative"), ("__nb_pending_task", "non-negative")):
        inits = [st for st in ast.walk(finit_.node) if isinstance(st, ast.Assign) and any(dump(t) == "self." + ctr for t in st.targets)]
        if len(inits) != 1:
            raise AnalysisError("anchor vanished: initialisation of self.%s in ThreadPool.__init__ (found %d)" % (ctr, len(inits)))
        v0 = inits[0].value
        try:
            c0 = prog.const(TP, v0)
        except AnalysisError:
            c0 = None
        okk = isinstance(c0, int) and not isinstance(c0, bool) and (c0 == 0 if policy == "zero" else c0 >= 0)
        ck.require(okk, "C10.7b", "%s: self.%s starts at %s" % (q.fn(finit_), ctr, dump(v0)), "initial value 0",
                   "the counter %s is initialised to %s: before any worker exists the pool already believes in %s - the bound `threads < "
                   "max_threads` / the idle count / the growth test are off by that amount for the whole life of the pool"
                   % (ctr, dump(v0), "workers or tasks that do not exist" if not (isinstance(c0, int) and c0 < 0) else "a negative number of them"),
                   q.loc(finit_, inits[0]))
    for fi in ci.methods.values():
        if fi.name == "__init__":
            continue
        for st in ast.walk(fi.node):
            if isinstance(st, ast.AugAssign) and isinstance(st.target, ast.Attribute) and dump(st.target.value) == "self" and \
                    st.target.attr in ("__nb_threads", "__nb_active_threads", "__nb_pending_task"):
                try:
                    amount = prog.const(TP, st.value)
                except AnalysisError:
                    amount = None
                ctr = st.target.attr
                exact = amount == 1 and not isinstance(amount, bool)
                if ctr == "__nb_pending_task" and isinstance(st.op, ast.Sub) and _uncounts_dropped_tasks(fi, st):
                    continue        # (one unit per real task dropped from the queue: judged with the pairing rule above)
                # over-counting waiting tasks only makes the pool grow earlier: tolerated; everything else must be one unit
                tolerated = ctr == "__nb_pending_task" and isinstance(st.op, ast.Add) and isinstance(amount, int) and \
                    (amount >= 1 or (fi.name != "enqueue" and amount >= 0))
                ck.require((exact or tolerated) and isinstance(st.op, (ast.Add, ast.Sub)), "C10.7b", "%s: `%s` moves the counter by one" % (q.fn(fi), dump(st)),
                           "one unit per worker / task",
                           "`%s` does not move %s by exactly one: the count of %s drifts with every event (the bound on the number of workers, the "
                           "idle count of the retirement test or the growth test is evaluated on a wrong number)"
                           % (dump(st), ctr, {"__nb_threads": "live workers", "__nb_active_threads": "executing tasks", "__nb_pending_task": "waiting tasks"}[ctr]),
                           q.loc(fi, st))
    # the count of executing tasks: +1 before the execution of a task that was taken, -1 in the finally of that execution, nothing else
    # (`threads - active` is the idle count of the retirement test: a count that drifts upwards keeps every worker for ever, one
    # that drifts downwards retires workers while tasks wait)
    act = [(fi_, st) for fi_ in ci.methods.values() if fi_.name != "__init__" for st in ast.walk(fi_.node)
           if isinstance(st, (ast.AugAssign, ast.Assign)) and any(dump(t) == "self.__nb_active_threads" for t in (st.targets if isinstance(st, ast.Assign) else [st.target]))]
    tries_x = [t for t in ast.walk(frun.node) if isinstance(t, ast.Try) and
               any(isinstance(c, ast.Call) and call_name(c) == "execute" for b in t.body for c in ast.walk(b))]
    # (the function-level try - whose finally unregisters the thread - is not one of them: it encloses the whole loop)
    loops_x = [l for l in ast.walk(frun.node) if isinstance(l, (ast.While, ast.For))]
    tries_x = [t for t in tries_x if any(any(x is t for b in l.body for x in ast.walk(b)) for l in loops_x)]
    if not tries_x:
        raise AnalysisError("anchor vanished: a try around future.execute inside the worker loop of ThreadPool.__run")
    incs_a = [st for (fi_, st) in act if isinstance(st, ast.AugAssign) and isinstance(st.op, ast.Add)]
    decs_a = [st for (fi_, st) in act if isinstance(st, ast.AugAssign) and isinstance(st.op, ast.Sub)]
    others = [st for (fi_, st) in act if st not in incs_a and st not in decs_a] + [st for (fi_, st) in act if fi_.fq != frun.fq]
    in_final = [st for st in decs_a if any(x is st for tx in tries_x for b in tx.finalbody for x in ast.walk(b))]
    grun = cfg_of(frun)
    drun = dominators(grun)
    exec_nodes = [n for n in grun.live_nodes() for c in node_calls(n) if call_name(c) == "execute"]
    inc_nodes = [n for n in grun.live_nodes() if n.kind == "stmt" and any(n.ast is st for st in incs_a)]
    ck.require(len(incs_a) == 1 and len(inc_nodes) == 1 and bool(exec_nodes) and all(inc_nodes[0].id in drun[e.id] for e in exec_nodes) and
               not any(x is incs_a[0] for tx in tries_x for b in tx.finalbody + [h_ for h in tx.handlers for h_ in h.body] for x in ast.walk(b)),
               "C10.7b", "%s: executing-task count raised once before the execution" % q.fn(frun), "`+= 1` dominates future.execute",
               "the count of executing tasks is not raised exactly once before a taken task is executed (%d increment(s)): the idle count "
               "`threads - active` of the retirement test is wrong" % len(incs_a), q.loc(frun, incs_a[0] if incs_a else frun.node))
    ck.require(len(decs_a) == 1 and len(in_final) == 1, "C10.7b", "%s: executing-task count lowered once when the execution ends" % q.fn(frun),
               "`-= 1` in the finally of the try around future.execute",
               "the count of executing tasks is not lowered exactly once in the finally of the execution (%d decrement(s), %d of them there): "
               "the idle count `threads - active` of the retirement test drifts" % (len(decs_a), len(in_final)),
               q.loc(frun, decs_a[0] if decs_a else frun.node))
    ck.require(not others, "C10.7b", "ThreadPool: no other update of the executing-task count", "only the +1 / -1 pair of __run",
               "the executing-task count is also written by `%s`" % (dump(others[0])[:60] if others else ""), q.loc(frun, others[0] if others else frun.node))
    # every queued task is counted: in enqueue, the increment post-dominates the put on normal paths
    fenq = prog.func(TP, "ThreadPool.enqueue")
    genq = cfg_of(fenq)
    from vlib.flow import postdominators, NORMAL
    pdq = postdominators(genq, [genq.return_exit.id], NORMAL)
    puts_q = [m for m in genq.live_nodes() for c in node_calls(m) if dump(c.func) in common.QUEUE_PUTS]
    incs_q = [m for m in genq.live_nodes() if m.kind == "stmt" and isinstance(m.ast, ast.AugAssign) and dump(m.ast.target) == "self.__nb_pending_task"
              and isinstance(m.ast.op, ast.Add)]
    if not puts_q:
        raise AnalysisError("anchor vanished: queue.put in ThreadPool.enqueue")
    for pn in puts_q:
        ck.require(any(i_.id in pdq[pn.id] for i_ in incs_q), "C10.7b", "%s: every queued task is counted" % q.fn(fenq),
                   "the pending increment follows the put on every normal path",
                   "a task can be queued without the pending-task counter being incremented (the increment is conditional or missing): the "
                   "decrement of its execution then drives the counter below the number of waiting tasks and the pool stops growing while "
                   "tasks wait", q.loc(fenq, pn))
    # the retirement decision and its accounting belong to one critical section
    for w in [w for w in ast.walk(frun.node) if isinstance(w, ast.If) and "_min_threads" in dump(w.test)]:
        # (the retiring branch is whichever arm of the test returns: the condition may be written in either polarity)
        arms = [arm for arm in (w.body, w.orelse) if any(isinstance(x, ast.Return) for st_ in arm for x in ast.walk(st_))]
        arm = arms[0] if arms else w.body
        has_dec = any(isinstance(x, ast.AugAssign) and dump(x.target) == "self.__nb_threads" and isinstance(x.op, ast.Sub) for st_ in arm for x in ast.walk(st_))
        has_ret = bool(arms)
        ck.require(has_dec and has_ret, "C10.7b", "%s: retirement decision and counter update in one critical section" % q.fn(frun),
                   "`nb_threads -= 1` in the branch that decides to retire",
                   "the worker that decides to retire does not decrement the thread counter in the critical section of that decision: a second "
                   "worker can take the same decision on the stale count and both retire (fewer than min_threads workers remain)", q.loc(frun, w))
    # the retirement return is guarded by threads > min
    rets = [n for n in g.live_nodes() if n.kind == "return" and any(g.nodes[i].kind == "branch" and "_min_threads" in dump(g.nodes[i].test) for i in d[n.id])]
    ck.require(len(rets) == 1, "C10.7", "%s: one idle retirement" % q.fn(frun), "single guarded return", "found %d idle-retirement returns" % len(rets), q.loc(frun, frun.node))
    def resolved(b):
        """norm_cmp of a branch with operands that are locals holding a field of self read in the same critical section replaced
        by that field (`n = self.__nb_threads` ... `n > self._min_threads`)"""
        nc = norm_cmp(b.test, b.polarity)
        if nc is None or not isinstance(b.test, ast.Compare):
            return nc
        sides = {dump(b.test.left): b.test.left, dump(b.test.comparators[0]): b.test.comparators[0]}
        out = []
        for txt in (nc[0], nc[2]):
            e_ = sides.get(txt)
            if isinstance(e_, ast.Name):
                t_ = prov.origin(g, b, e_)
                if t_[0] == "attr" and t_[1] == ("param", "self"):
                    rdefs = prov.rd_of(g).get(b.id, {}).get(e_.id, frozenset())
                    if len(rdefs) == 1 and g.nodes[list(rdefs)[0]].withs == b.withs and b.withs:
                        txt = "self." + t_[2]
            out.append(txt)
        return (out[0], nc[1], out[1])
    for rn in rets:
        gs = [resolved(g.nodes[i]) for i in d[rn.id] if g.nodes[i].kind == "branch"]
        idle_ok = False
        for i in d[rn.id]:
            b = g.nodes[i]
            nc = norm_cmp(b.test, b.polarity) if b.kind == "branch" else None
            if nc and nc[1] == "<" and nc[0] == "self._queue.qsize()" and isinstance(b.test, ast.Compare):
                other = b.test.comparators[0] if dump(b.test.left) == "self._queue.qsize()" else b.test.left
                to = prov.origin(g, b, other)
                if to == ("binop", "Sub", ("attr", ("param", "self"), "__nb_threads"), ("attr", ("param", "self"), "__nb_active_threads")):
                    idle_ok = True
        ck.require(idle_ok, "C10.7", "%s: retirement only when idle workers outnumber the waiting tasks" % q.fn(frun),
                   "qsize() < nb_threads - nb_active_threads (strict)",
                   "an idle worker may retire although the other idle workers do not outnumber the queued tasks (guards %s): with idle == queued > 0 "
                   "a waiting task is left without a worker" % [x for x in gs if x], q.loc(frun, rn))
        ck.require(("self._min_threads", "<", "self.__nb_threads") in gs, "C10.7", "%s: retirement guarded by `threads > min`" % q.fn(frun),
                   "nb_threads > min_threads", "an idle worker can retire although no more than min_threads workers exist (guards %s)" % [x for x in gs if x], q.loc(frun, rn))

    # ---- C10.8 the worker's containment handler cannot raise on user objects ---------------------------------------------
    common.check_inert_handlers(ck, "C10.8", scopes=("worker",))
    ck.floor("C10.8", 2)

    # ---- C10.9 no stale sentinel survives a stop (shared with C11.3) --------------------------------------------------------------
    from rules import c11 as _c11s
    common.import_rules(ck, _c11s, {"C11.3": "C10.9"})
    ck.floor("C10.9", 7)
