"""Closed-world rules shared by every property (rule ids Cxx.W1 ... Cxx.W6).

The property rules in rules/cXX.py read the code that is there: guards, orders, provenances, tables.  A change can also
break a property by ADDING something those rules have no reason to look at - a memoising decorator, a lazily consumed
iterator, a new special method that changes what an existing expression does, a decorator around a known function, a new
cache field.  The rules below are decided on the slice of the program a property depends on (call-graph closure from the
property's entry points, attribute calls resolved by method name) and report such additions when - and only when - the
added construct has a behaviour that a necessary condition of the property excludes:

 W1  memoised function (functools.lru_cache / cache) called with values that are not provably strings: the cache conflates
     arguments that compare equal (0 / False / 0.0, 1 / True / 1.0, equal tuples of them), raises TypeError for unhashable
     arguments (lists, dictionaries - any JSON container) and keeps answering for a mutable argument (a Config) whose
     fields changed since the first call.
 W2  single-use iterator (map / filter / zip / generator expression bound to a local) consumed at two places on one path:
     the second consumer sees nothing.
 W3  special methods added to a package class: __len__ / __bool__ on a class whose instances are truth-tested
     (`config or DEFAULT`), __exit__ that can return a true value (swallows the exception of the block), __str__ / __repr__
     that can return a non-string (str(ex) raises TypeError inside the handlers that format the exception), read hooks
     (__missing__, __getattr__, __getitem__, __contains__) that write.
 W4  a decorator added to a function the rules anchor on, defined in the package, whose wrapper shares mutable state
     created at decoration time between all calls and threads.
 W5  override of a socketserver / http.server hook that runs on the serve loop's error path and can itself raise.
 W6  a mutable container that outlives a call (module level, class level, created by a decorator) and is written from
     the property's slice.
 W8  a method defined by a package base class (a mixin's override) that an earlier standard-library base of the same class
     also defines: the method resolution order takes the standard-library version.
 W9  `return` / `break` / `continue` inside a `finally` clause: the exception in flight is discarded.
 W10 an assert statement whose test has a side effect (disappears under python -O).
 W11 a deadline or duration computed from the wall clock (time.time()).
 W12 an identity test (is / is not) against a value: a number, a string, a module constant that is not a sentinel object.
 W13 a class-private name (obj.__x) used outside a class body: it is not mangled there, the attribute does not exist.
 W7  a lambda / nested function created in a loop that reads the loop variable and is not called in the same iteration
     (late binding: when it runs, every such closure acts on the last item).

Constructs of these kinds that are there but cannot be judged (an unknown decorator, a new __eq__ ...) end the run as an
analysis error (exit 2), never as a violation."""
import ast
from vlib.model import AnalysisError, dump, FuncInfo
from vlib.cfg import cfg_of, node_calls
from vlib.flow import reachable_avoiding
from vlib import prov, q

EXPLANATION = (
    " Closed-world rules (same for every property, decided on the call-graph slice of the property's entry points): W1 no "
    "memoised function (functools.lru_cache / cache) is called with values that are not provably strings (a cache conflates "
    "equal-but-different values such as 0 / False / 0.0, raises TypeError for unhashable JSON containers and goes stale for "
    "mutable arguments such as a Config); W2 no single-use iterator (map / filter / zip / generator bound to a local) is "
    "consumed twice on one path; W3 special methods added to package classes do not change what existing expressions do "
    "(__len__/__bool__ on truth-tested configuration objects, __exit__ returning a true value, __str__/__repr__ returning a "
    "non-string, read hooks that write); W4 no decorator with shared mutable state wraps a function the rules anchor on; W5 "
    "an override of the serve loop's error hook cannot raise; W6 no new container that outlives a call is written from the "
    "slice; W7 no closure created in a loop keeps reading the loop variable after its iteration (late binding); W8 no override provided by a package base class is hidden by a standard-library base listed before it; W9 no finally clause leaves with return / break / continue (which discards the exception in flight); W10 assert tests are free of side effects (the statement vanishes under python -O); W11 no deadline or duration is computed from the wall clock; W12 identity tests compare with None / True / False, a class, a sentinel created by object(), or another object reference - never with a value (number, string, enum member, module constant), for which equal objects need not be identical; W13 no module-level function reaches a class-private attribute by its source spelling (obj.__x is mangled only inside a class body).")

RULE_METHODS = {"W1": "decorator resolution + call-site argument classification", "W2": "reaching definitions + CFG reachability between consumers",
                "W3": "class-body scan against vlib/known_functions.json + return / store classification",
                "W4": "decorator resolution + closure-cell scan", "W5": "override scan against the stdlib hook table + E4 may-raise",
                "W6": "store scan of module / class / decorator level containers",
                "W7": "free-variable analysis of closures created in loops + use classification",
                "W9": "syntax scan of finally clauses", "W10": "call classification inside assert tests (pure builtins / queries vs mutating callees)",
                "W11": "syntax scan for arithmetic on time.time()", "W12": "operand classification of is / is not comparisons (module-level bindings resolved)", "W13": "attribute scan of module-level functions",
                "W8": "left-to-right linearisation of the bases against the names the standard-library bases define"}

SRV = "SimpleJSONRPCServer"
# entry points of each property: (module, qualified-name prefix)
ROOTS = {
    "C01": [("jsonrpc", "ServerProxy."), ("jsonrpc", "_Method."), ("jsonrpc", "_Notify."), ("jsonrpc", "MultiCall"), ("jsonrpc", "TransportMixIn."),
            ("jsonrpc", "dumps"), ("jsonrpc", "loads"), (SRV, "SimpleJSONRPCRequestHandler.do_POST"), (SRV, "SimpleJSONRPCDispatcher._marshaled_dispatch"),
            (SRV, "CGIJSONRPCRequestHandler."), (SRV, "PooledJSONRPCServer.process_request")],
    "C02": [(SRV, "SimpleJSONRPCDispatcher._marshaled_dispatch"), (SRV, "SimpleJSONRPCRequestHandler.do_POST")],
    "C03": [(SRV, "SimpleJSONRPCDispatcher._marshaled_dispatch")],
    "C04": [(SRV, "SimpleJSONRPCDispatcher._marshaled_dispatch")],
    "C05": [(SRV, "SimpleJSONRPCDispatcher._marshaled_dispatch"), ("jsonrpc", "check_for_errors")],
    "C06": [("jsonrpc", "check_for_errors"), ("jsonrpc", "ServerProxy._request"), ("jsonrpc", "MultiCall")],
    "C07": [("jsonclass", "dump"), ("jsonclass", "load"), ("jsonrpc", "dump"), ("jsonrpc", "load"), ("config", "LocalClasses.")],
    "C08": [("jsonrpc", "load"), ("jsonclass", "load"), (SRV, "SimpleJSONRPCDispatcher._marshaled_dispatch")],
    "C09": [("threadpool", "ThreadPool."), ("threadpool", "FutureResult."), ("threadpool", "EventData.")],
    "C10": [("threadpool", "ThreadPool.")],
    "C11": [("threadpool", "ThreadPool.")],
    "C12": [(SRV, "SimpleJSONRPCRequestHandler."), (SRV, "SimpleJSONRPCServer."), (SRV, "PooledJSONRPCServer."), (SRV, "SimpleJSONRPCDispatcher._marshaled_dispatch"),
            ("threadpool", "ThreadPool.")],
    "C13": [(SRV, "SimpleJSONRPCDispatcher._marshaled_dispatch"), (SRV, "SimpleJSONRPCRequestHandler.do_POST"), ("config", "Config.")],
    "C14": [("jsonrpc", "dumps"), ("jsonrpc", "dump"), ("jsonrpc", "loads"), ("jsonrpc", "Payload."), ("jsonrpc", "Fault.")],
    "C15": [("jsonclass", "dump"), ("jsonclass", "load"), ("jsonlib", "")],
    "C16": [("threadpool", "FutureResult."), ("threadpool", "EventData."), ("threadpool", "ThreadPool.__run")],
    "C17": [("jsonrpc", "TransportMixIn."), ("jsonrpc", "ServerProxy.__init__"), ("jsonrpc", "ServerProxy._run_request"), ("jsonrpc", "JSONTarget."),
            ("jsonrpc", "JSONParser."), ("jsonrpc", "UnixTransport."), (SRV, "SimpleJSONRPCRequestHandler.do_POST"), (SRV, "CGIJSONRPCRequestHandler.")],
    "C18": [("jsonrpc", "TransportMixIn."), ("jsonrpc", "ServerProxy._additional_headers"), ("jsonrpc", "ServerProxy.__init__")],
    "C19": [("jsonrpc", "TransportMixIn."), ("jsonrpc", "ServerProxy._request"), ("jsonrpc", "ServerProxy._run_request"), ("jsonrpc", "JSONTarget."),
            ("jsonrpc", "JSONParser."), ("jsonrpc", "UnixTransport."), ("jsonrpc", "UnixHTTPConnection.")],
    "C20": [("jsonclass", "dump"), ("jsonrpc", "dump"), ("config", "Config.")],
}

CLIENT_CLASSES = ("ServerProxy", "_Method", "_Notify", "MultiCall", "MultiCallMethod", "MultiCallNotify", "MultiCallIterator", "TransportMixIn",
                  "Transport", "SafeTransport", "UnixTransport", "UnixHTTPConnection", "JSONParser", "JSONTarget", "TransportError")
MSG_IN = ("loads", "load", "jloads", "check_for_errors", "isbatch", "isnotification", "ProtocolError", "AppError")
MSG_OUT = ("dumps", "dump", "jdumps", "Payload", "Fault")


def _top(fi):
    return fi.qual.split(".")[0]


def _grp(fi):
    """coarse component of a function: client / msg_in / msg_out / server / pool / ser / other"""
    if fi.module == "jsonrpc":
        t = _top(fi)
        if t in CLIENT_CLASSES:
            return "client"
        if t in MSG_IN:
            return "msg_in"
        if t in MSG_OUT:
            return "msg_out"
        return "msg_priv" if t.startswith("_") or t[:1].islower() else "client"
    if fi.module == "SimpleJSONRPCServer":
        return "server"
    if fi.module == "threadpool":
        return "pool"
    if fi.module in ("jsonclass", "jsonlib", "utils", "config"):
        return "ser"
    return "other"


ALL = ("client", "msg_in", "msg_out", "msg_priv", "server", "pool", "ser", "other")
SCOPE = {
    "C01": ALL, "C02": ("server", "msg_in", "msg_out", "ser"), "C03": ("server", "msg_in", "msg_out", "ser"),
    "C04": ("server", "msg_in", "msg_out", "ser", "pool"), "C05": ("server", "msg_in", "msg_out", "ser"),
    "C06": ("client", "msg_in", "ser"), "C07": ("ser", "msg_in", "msg_out", "server", "client"), "C08": ("ser", "msg_in", "server"),
    "C09": ("pool",), "C10": ("pool",), "C11": ("pool",), "C12": ("server", "pool", "msg_in", "msg_out", "ser"),
    "C13": ("server", "msg_in", "msg_out", "ser"), "C14": ("msg_in", "msg_out", "ser"), "C15": ("ser",), "C16": ("pool",),
    "C17": ("client", "server"), "C18": ("client",), "C19": ("client", "msg_in", "ser"), "C20": ("ser", "msg_out"),
}

MEMO_NAMES = ("lru_cache", "cache", "cached_property", "memoize", "memoized", "memoise")
KNOWN_DECORATORS = ("staticmethod", "classmethod", "property", "contextlib.contextmanager", "contextmanager", "functools.wraps", "wraps", "abstractmethod", "abc.abstractmethod")
READ_HOOKS = ("__missing__", "__getattr__", "__getattribute__", "__getitem__", "__contains__", "__iter__", "__get__")
OTHER_IMPLICIT = ("__eq__", "__ne__", "__hash__", "__lt__", "__le__", "__gt__", "__ge__", "__setattr__", "__delattr__", "__setitem__", "__delitem__",
                  "__call__", "__del__", "__set__", "__new__", "__init_subclass__", "__class_getitem__", "__index__", "__int__", "__float__", "__add__",
                  "__radd__", "__iadd__", "__enter__", "__next__", "__reversed__", "__format__", "__bytes__", "__copy__", "__deepcopy__",
                  "__reduce__", "__reduce_ex__", "__getstate__", "__setstate__", "__getnewargs__", "__instancecheck__", "__subclasscheck__")
SERVE_ERROR_HOOKS = ("handle_error", "handle_timeout", "shutdown_request", "close_request", "service_actions")


# ---------------------------------------------------------------------------
# slices
# ---------------------------------------------------------------------------
def _methods_by_name(prog):
    idx = {}
    for fi in prog.funcs.values():
        idx.setdefault(fi.name, []).append(fi)
    return idx


def slice_of(prog, prop):
    """{fq: FuncInfo} reachable from the property's entry points.  Calls on self / module functions / classes are resolved by
    the model; other attribute calls `<expr>.name(...)` are resolved to every package method of that name (class hierarchy
    analysis without receiver types - an over-approximation)."""
    cache = prog.__dict__.setdefault("_slice_cache", {})
    if prop in cache:
        return cache[prop]
    from rules import common
    by_name = _methods_by_name(prog)
    roots = []
    for (mod, prefix) in ROOTS.get(prop, []):
        found = [fi for fi in prog.funcs.values() if fi.module == mod and (fi.qual == prefix or fi.qual.startswith(prefix) if prefix else True)]
        if not found:
            raise AnalysisError("anchor vanished: entry point %s.%s* of the slice of %s" % (mod, prefix, prop))
        roots.extend(found)
    seen = {}
    stack = list(roots)
    scope = SCOPE[prop]
    if "msg_in" in scope or "msg_out" in scope:
        scope = tuple(scope) + ("msg_priv",)      # private helpers of the message functions
    while stack:
        fi = stack.pop()
        if fi.fq in seen:
            continue
        if _grp(fi) not in scope and fi not in roots:
            continue        # outside the components the property depends on
        seen[fi.fq] = fi
        for (_n, _c, r) in common.callees(prog, fi):
            if r.fq not in seen:
                stack.append(r)
        for x in ast.walk(fi.node):
            if isinstance(x, ast.Call) and isinstance(x.func, ast.Attribute) and not (isinstance(x.func.value, ast.Name) and x.func.value.id == "self"):
                for m in by_name.get(x.func.attr, ()):
                    if m.cls is not None and m.fq not in seen:
                        stack.append(m)
            # nested functions / lambdas defined here run as part of it
        for other in prog.funcs.values():
            if other.outer is fi and other.fq not in seen:
                stack.append(other)
    cache[prop] = seen
    return seen


# ---------------------------------------------------------------------------
# small classifiers
# ---------------------------------------------------------------------------
def _deco_name(d):
    if isinstance(d, ast.Call):
        d = d.func
    return dump(d)


def _is_memo(d, module=None):
    """the decorator is functools.lru_cache / cache (called or not), or a module-level name bound to one"""
    nm = _deco_name(d)
    if nm.split(".")[-1] in MEMO_NAMES:
        return True
    d0 = d.func if isinstance(d, ast.Call) else d
    if module is not None and isinstance(d0, ast.Name):
        d = d0
        tree = getattr(module, "tree", None)
        if tree is not None:
            for x in ast.walk(tree):
                if isinstance(x, ast.Assign) and any(isinstance(t, ast.Name) and t.id == d.id for t in x.targets):
                    if _deco_name(x.value).split(".")[-1] in MEMO_NAMES:
                        return True
    return False


def provably_str(e, fi=None, depth=0):
    """the expression is a str whatever the inputs are"""
    if isinstance(e, ast.Constant):
        return isinstance(e.value, str)
    if isinstance(e, ast.JoinedStr):
        return True
    if isinstance(e, ast.Call):
        f = e.func
        if isinstance(f, ast.Name) and f.id in ("str", "repr", "format", "ascii", "chr"):
            return True
        if isinstance(f, ast.Attribute) and f.attr in ("format", "join", "lower", "upper", "strip", "lstrip", "rstrip", "title", "replace",
                                                       "decode", "capitalize", "casefold", "format_map", "zfill", "ljust", "rjust", "center"):
            return f.attr != "decode" and (provably_str(f.value, fi, depth + 1) or f.attr in ("format", "join")) or f.attr == "decode"
        return False
    if isinstance(e, ast.BinOp) and isinstance(e.op, ast.Mod):
        return provably_str(e.left, fi, depth + 1)
    if isinstance(e, ast.BinOp) and isinstance(e.op, ast.Add):
        return provably_str(e.left, fi, depth + 1) and provably_str(e.right, fi, depth + 1)
    if isinstance(e, ast.IfExp):
        return provably_str(e.body, fi, depth + 1) and provably_str(e.orelse, fi, depth + 1)
    if isinstance(e, ast.Attribute) and e.attr in ("__name__", "__qualname__", "__module__"):
        return True
    if depth > 4:
        return False
    if isinstance(e, ast.BoolOp):
        return all(provably_str(v, fi, depth + 1) for v in e.values)
    if isinstance(e, ast.Attribute) and e.attr in ("path", "query", "netloc", "scheme", "fragment", "params") and \
            not (isinstance(e.value, ast.Name) and e.value.id == "self"):
        return True        # the string fields of a urlparse() result
    if isinstance(e, ast.Name) and fi is not None:
        vals = [x.value for x in ast.walk(fi.node) if isinstance(x, ast.Assign) and any(isinstance(t, ast.Name) and t.id == e.id for t in x.targets)]
        other = [x for x in ast.walk(fi.node) if isinstance(x, ast.Name) and x.id == e.id and isinstance(x.ctx, ast.Store)]
        return bool(vals) and len(other) == len(vals) and e.id not in fi.params and all(provably_str(v, fi, depth + 1) for v in vals)
    if isinstance(e, ast.Attribute) and isinstance(e.value, ast.Name) and e.value.id == "self" and fi is not None and fi.cls is not None:
        vals = []
        for m in fi.cls.methods.values():
            for x in ast.walk(m.node):
                if isinstance(x, ast.Assign):
                    for t in x.targets:
                        if isinstance(t, ast.Attribute) and isinstance(t.value, ast.Name) and t.value.id == "self" and t.attr == e.attr:
                            vals.append((m, x.value))
                        elif isinstance(t, ast.Tuple) and any(isinstance(z, ast.Attribute) and z.attr == e.attr for z in t.elts):
                            return False
                elif isinstance(x, (ast.AugAssign, ast.AnnAssign)) and isinstance(x.target, ast.Attribute) and x.target.attr == e.attr:
                    return False
        return bool(vals) and all(provably_str(v, m, depth + 1) for (m, v) in vals)
    return False


def _immutable_result(fn, str_params=()):
    """every return of the function is a constant, a name of a class / function, a parameter known to be a string, or a tuple of such"""
    def imm(e):
        if e is None or isinstance(e, ast.Constant):
            return True
        if isinstance(e, ast.Tuple):
            return all(imm(x) for x in e.elts)
        if isinstance(e, ast.Name):
            return e.id[:1].isupper() or e.id in ("True", "False", "None") or e.id in str_params
        return provably_str(e)
    return all(imm(r.value) for r in ast.walk(fn) if isinstance(r, ast.Return))


def _call_sites(slice_, name):
    out = []
    for fi in slice_.values():
        for x in ast.walk(fi.node):
            if isinstance(x, ast.Call):
                f = x.func
                nm = f.id if isinstance(f, ast.Name) else f.attr if isinstance(f, ast.Attribute) else None
                if nm == name:
                    out.append((fi, x))
    return out


# ---------------------------------------------------------------------------
# the rules
# ---------------------------------------------------------------------------
def check(ck):
    prog, prop = ck.prog, ck.prop
    if prop not in ROOTS:
        return
    sl = slice_of(prog, prop)
    ck.stat("closed_world_slice_functions", len(sl)) if hasattr(ck, "stat") else None
    errors = []
    for part in (_w1_memo, _w2_iterators, _w6_containers, _w7_closures, _w9_finally_exits, _w10_assert_effects, _w11_wall_clock, _w12_identity_of_values, _w13_private_outside_class):
        try:
            part(ck, sl)
        except AnalysisError as ex:
            errors.append(ex)
    from rules import closed_world_classes as cwc
    cwc.check(ck, sl, errors)
    try:
        cwc.check_mro(ck, sl)
    except AnalysisError as ex:
        errors.append(ex)
    if errors:
        raise errors[0]


def _w1_memo(ck, sl):
    prog, prop = ck.prog, ck.prop
    rule = prop + ".W1"
    n = 0
    for fi in sl.values():
        memo = [d for d in fi.node.decorator_list if _is_memo(d, prog.modules[fi.module])]
        if not memo:
            continue
        n += 1
        params = [p for p in fi.params if p not in ("self", "cls")]
        sites = [(cf, c) for (cf, c) in _call_sites(sl, fi.name) if cf.fq != fi.fq]
        if not params:
            ck.ok(rule, "%s: @%s" % (q.fn(fi), _deco_name(memo[0])), "no parameter: a constant computed once", fi.loc())
            continue
        unsafe = []
        for (cf, c) in sites:
            for a in list(c.args) + [k.value for k in c.keywords]:
                if not provably_str(a, cf):
                    unsafe.append((cf, c, a))
        if sites and not unsafe and _immutable_result(fi.node, params):
            ck.ok(rule, "%s: @%s" % (q.fn(fi), _deco_name(memo[0])), "only called with strings, immutable results (%d call sites)" % len(sites), fi.loc())
            continue
        if unsafe:
            cf, c, a = unsafe[0]
            where = "`%s` in %s passes `%s`" % (dump(c)[:60], q.fn(cf), dump(a)[:40])
        else:
            where = "its results are mutable objects shared by all callers" if sites else "no call site found in the slice (called through an alias)"
        ck.bad(rule, "%s: @%s" % (q.fn(fi), _deco_name(memo[0])),
               "%s is memoised (%s) and %s, which is not provably a string: the cache answers for any argument that compares equal "
               "(0 / False / 0.0 and 1 / True / 1.0 are one key: the first value seen is returned for all of them), raises TypeError "
               "for an unhashable argument (a JSON array or object) and keeps the first answer for a mutable argument whose fields "
               "change later (a Config)" % (q.fn(fi), _deco_name(memo[0]), where), fi.loc())
    ck.ok(rule, "memoised functions in the slice", "%d found" % n, "")


ITER_MAKERS = ("map", "filter", "zip", "iter", "reversed", "enumerate")
CONSUMERS = ("list", "tuple", "set", "frozenset", "sorted", "sum", "any", "all", "max", "min", "dict", "next", "join", "extend", "update", "len")


def _w2_iterators(ck, sl):
    prop = ck.prop
    rule = prop + ".W2"
    n = 0
    for fi in sl.values():
        g = cfg_of(fi)
        lazies = {}
        for nd in g.live_nodes():
            if nd.kind == "stmt" and isinstance(nd.ast, ast.Assign) and len(nd.ast.targets) == 1 and isinstance(nd.ast.targets[0], ast.Name):
                v = nd.ast.value
                if isinstance(v, ast.GeneratorExp) or (isinstance(v, ast.Call) and isinstance(v.func, ast.Name) and v.func.id in ITER_MAKERS):
                    lazies.setdefault(nd.ast.targets[0].id, []).append(nd)
        for name, defs in lazies.items():
            n += 1
            redefs = set(d.id for d in g.live_nodes() if d.kind == "stmt" and isinstance(d.ast, (ast.Assign, ast.AugAssign)) and
                         any(isinstance(t, ast.Name) and t.id == name for t in (d.ast.targets if isinstance(d.ast, ast.Assign) else [d.ast.target])))
            uses = []
            for nd in g.live_nodes():
                if nd.kind in ("for_body", "for", "join") and isinstance(getattr(nd, "ast", None), ast.For) and isinstance(nd.ast.iter, ast.Name) and nd.ast.iter.id == name:
                    if nd.kind == "for_body":
                        uses.append((nd, "for loop"))
                    continue
                for c in node_calls(nd):
                    fn_ = c.func.id if isinstance(c.func, ast.Name) else c.func.attr if isinstance(c.func, ast.Attribute) else None
                    if fn_ in CONSUMERS and any(isinstance(a, ast.Name) and a.id == name for a in c.args):
                        uses.append((nd, "%s(...)" % fn_))
                    if any(isinstance(a, ast.Starred) and isinstance(a.value, ast.Name) and a.value.id == name for a in c.args):
                        uses.append((nd, "*%s" % name))
            double = None
            for (a, ka) in uses:
                reach = set()
                for (b_, l) in g.succ[a.id]:
                    if l != "exc":
                        reach |= reachable_avoiding(g, b_, redefs)
                for (b, kb) in uses:
                    if b.id != a.id and b.id in reach:
                        double = (a, ka, b, kb)
                        break
                if double:
                    break
            if double:
                a, ka, b, kb = double
                ck.bad(rule, "%s: single-use iterator `%s`" % (q.fn(fi), name),
                       "`%s` is bound to a single-use iterator (`%s`) and consumed twice on one path: by the %s at line %s and then by %s at line %s - "
                       "the second consumer finds it exhausted (an empty batch is sent / nothing is processed)" % (
                           name, dump(defs[0].ast.value)[:50], ka, getattr(a.ast, "lineno", "?"), kb, getattr(b.ast, "lineno", "?")), q.loc(fi, b))
            else:
                ck.ok(rule, "%s: single-use iterator `%s`" % (q.fn(fi), name), "consumed at most once on every path", q.loc(fi, defs[0]))
    ck.ok(rule, "single-use iterators bound to locals in the slice", "%d found" % n, "")


# ---------------------------------------------------------------------------
# W6 containers that outlive a call and are written from the slice
# ---------------------------------------------------------------------------
_CONTAINER_CALLS = ("dict", "list", "set", "defaultdict", "OrderedDict", "deque", "WeakKeyDictionary", "WeakValueDictionary", "Counter", "local")
_MUT = ("setdefault", "update", "append", "extend", "insert", "add", "pop", "popitem", "remove", "discard", "clear", "sort", "reverse", "appendleft")


def _container_display(v):
    if isinstance(v, (ast.Dict, ast.List, ast.Set)):
        return True
    return isinstance(v, ast.Call) and _deco_name(v).split(".")[-1] in _CONTAINER_CALLS


def _w6_containers(ck, sl):
    prog, prop = ck.prog, ck.prop
    rule = prop + ".W6"
    n = 0
    mods = set(fi.module for fi in sl.values())
    for mod in sorted(mods):
        m = prog.modules[mod]
        glob = {}
        for st in ast.walk(m.tree):
            if isinstance(st, (ast.FunctionDef, ast.ClassDef, ast.Lambda)):
                continue
        for st in m.tree.body:
            for sub in ([st] if isinstance(st, ast.Assign) else [x for x in ast.walk(st) if isinstance(x, ast.Assign)] if isinstance(st, (ast.Try, ast.If)) else []):
                if _container_display(sub.value):
                    for t in sub.targets:
                        if isinstance(t, ast.Name):
                            glob[t.id] = sub
        cls_level = {}
        for ci in prog.classes.values():
            if ci.module != mod:
                continue
            for st in ci.node.body:
                if isinstance(st, ast.Assign) and _container_display(st.value):
                    for t in st.targets:
                        if isinstance(t, ast.Name):
                            cls_level[(ci.name, t.id)] = (ci, st)
        if not glob and not cls_level:
            continue
        for fi in sl.values():
            if fi.module != mod:
                continue
            local_names = set(fi.params) | set(x.id for x in ast.walk(fi.node) if isinstance(x, ast.Name) and isinstance(x.ctx, ast.Store))
            declared_global = set(nm for x in ast.walk(fi.node) if isinstance(x, ast.Global) for nm in x.names)
            rebound = set()
            if fi.cls is not None:
                init = fi.cls.methods.get("__init__")
                if init is not None:
                    rebound = set(t.attr for st in ast.walk(init.node) if isinstance(st, ast.Assign) for t in st.targets
                                  if isinstance(t, ast.Attribute) and dump(t.value) == "self")

            def root_of(e):
                while isinstance(e, ast.Subscript):
                    e = e.value
                return e

            def classify(e):
                """-> description of the long-lived container the expression denotes, or None"""
                e = root_of(e)
                if isinstance(e, ast.Name) and e.id in glob and (e.id not in local_names or e.id in declared_global):
                    return "module-level `%s = %s`" % (e.id, dump(glob[e.id].value)[:30])
                if isinstance(e, ast.Attribute) and isinstance(e.value, ast.Name):
                    owner = e.value.id
                    if owner in ("self", "cls") and fi.cls is not None:
                        for ci_ in [fi.cls] + [prog.classes[b] for b in getattr(fi.cls, "bases", []) if b in prog.classes]:
                            if (ci_.name, e.attr) in cls_level and (owner == "cls" or e.attr not in rebound):
                                return "class-level `%s.%s = %s`" % (ci_.name, e.attr, dump(cls_level[(ci_.name, e.attr)][1].value)[:30])
                    for (cn, an) in cls_level:
                        if owner == cn and e.attr == an:
                            return "class-level `%s.%s`" % (cn, an)
                return None
            for x in ast.walk(fi.node):
                hit = None
                if isinstance(x, (ast.Assign, ast.AugAssign)):
                    for t in (x.targets if isinstance(x, ast.Assign) else [x.target]):
                        if isinstance(t, ast.Subscript):
                            hit = hit or classify(t)
                elif isinstance(x, ast.Delete):
                    for t in x.targets:
                        if isinstance(t, ast.Subscript):
                            hit = hit or classify(t)
                elif isinstance(x, ast.Call) and isinstance(x.func, ast.Attribute) and x.func.attr in _MUT:
                    hit = classify(x.func.value)
                if hit:
                    n += 1
                    key = hit.split(" = ")[0]
                    if (mod, key) in W6_TRIAGED:
                        ck.ok(rule, "%s: writes %s" % (q.fn(fi), key), "triaged: %s" % W6_TRIAGED[(mod, key)], fi.loc(x))
                        continue
                    ck.bad(rule, "%s: writes %s" % (q.fn(fi), key),
                           "`%s` in %s writes the %s, a container created once and shared by every call, object and thread: what one call (one "
                           "request, one dump, one server) leaves there is seen by the next - results depend on what was processed before, and "
                           "concurrent calls interfere" % (dump(x)[:60], q.fn(fi), hit), fi.loc(x))
    ck.ok(rule, "writes to module-level / class-level containers from the slice", "%d found" % n, "")


# writes to long-lived containers that exist on the pinned tree and were read one by one: (module, container) -> reason
W6_TRIAGED = {
}


# ---------------------------------------------------------------------------
# W7 closures that capture a loop variable and run later
# ---------------------------------------------------------------------------
_SYNC_CONSUMERS = ("sorted", "min", "max", "map", "filter", "sort", "any", "all", "sum", "next", "reduce")


def _free_loop_vars(fn, loop_vars):
    """names of `loop_vars` read inside the lambda / nested def without being bound there (parameters, defaults excluded)"""
    a = fn.args
    bound = set(x.arg for x in a.args + a.kwonlyargs + a.posonlyargs) | set(x.arg for x in (a.vararg, a.kwarg) if x)
    body = [fn.body] if isinstance(fn, ast.Lambda) else fn.body
    for st in body:
        for x in ast.walk(st):
            if isinstance(x, ast.Name) and isinstance(x.ctx, ast.Store):
                bound.add(x.id)
    out = set()
    for st in body:
        for x in ast.walk(st):
            if isinstance(x, ast.Name) and isinstance(x.ctx, ast.Load) and x.id in loop_vars and x.id not in bound:
                out.add(x.id)
    return out


def _w7_closures(ck, sl):
    rule = ck.prop + ".W7"
    n = 0
    for fi in sl.values():
        parents = {}
        for x in ast.walk(fi.node):
            for ch in ast.iter_child_nodes(x):
                parents[id(ch)] = x
        for loop in ast.walk(fi.node):
            if not isinstance(loop, (ast.For, ast.While)):
                continue
            lv = set()
            if isinstance(loop, ast.For):
                lv = set(x.id for x in ast.walk(loop.target) if isinstance(x, ast.Name))
            # names rebound in every iteration count as well
            for st in loop.body:
                for x in ast.walk(st):
                    if isinstance(x, ast.Name) and isinstance(x.ctx, ast.Store):
                        lv.add(x.id)
            for st in loop.body:
                for fn in ast.walk(st):
                    if not isinstance(fn, (ast.Lambda, ast.FunctionDef)) or fn is fi.node:
                        continue
                    free = _free_loop_vars(fn, lv)
                    if not free:
                        continue
                    n += 1
                    par = parents.get(id(fn))
                    sync = False
                    if isinstance(fn, ast.Lambda):
                        if isinstance(par, ast.Call) and par.func is fn:
                            sync = True           # called on the spot
                        if isinstance(par, ast.keyword) and par.arg == "key":
                            sync = True
                        if isinstance(par, ast.Call) and _deco_name(par).split(".")[-1] in _SYNC_CONSUMERS:
                            sync = True
                    else:
                        # a nested def: synchronous if every use of its name inside the loop body is a direct call
                        uses = [u for s2 in loop.body for u in ast.walk(s2) if isinstance(u, ast.Name) and u.id == fn.name and isinstance(u.ctx, ast.Load)]
                        sync = bool(uses) and all(isinstance(parents.get(id(u)), ast.Call) and parents[id(u)].func is u for u in uses)
                    ck.require(sync, rule, "%s: closure over the loop variable `%s`" % (q.fn(fi), sorted(free)[0]),
                               "called within the iteration that creates it",
                               "`%s` is created in a loop, reads the loop variable `%s` and is kept for later (stored, queued or passed on) instead of "
                               "being called in the same iteration: closures see the variable, not its value at creation - when they finally run, "
                               "all of them act on the last item of the loop" % (dump(fn)[:60], sorted(free)[0]), fi.loc(fn))
    ck.ok(rule, "closures created inside loops of the slice", "%d capture a loop variable" % n, "")


# ---------------------------------------------------------------------------
# W9 return / break / continue inside a finally clause
# ---------------------------------------------------------------------------
def _w9_finally_exits(ck, sl):
    rule = ck.prop + ".W9"
    n = 0
    for fi in sl.values():
        for t in ast.walk(fi.node):
            if not (isinstance(t, ast.Try) and t.finalbody):
                continue
            n += 1
            bad = None
            for st in t.finalbody:
                for x in ast.walk(st):
                    if isinstance(x, (ast.FunctionDef, ast.Lambda)):
                        continue
                    if isinstance(x, ast.Return):
                        bad = x
                    elif isinstance(x, (ast.Break, ast.Continue)):
                        # only when the loop it leaves encloses the try (a loop inside the finally clause is its own business)
                        inner_loops = [l for s2 in t.finalbody for l in ast.walk(s2) if isinstance(l, (ast.For, ast.While)) and any(y is x for y in ast.walk(l))]
                        if not inner_loops:
                            bad = x
            ck.require(bad is None, rule, "%s: finally clause at line %s" % (q.fn(fi), t.lineno), "falls through",
                       "the finally clause leaves with `%s`: an exception raised in the protected block (or a return value on its way out) is "
                       "discarded there - failures inside the block are silently turned into a normal completion" % (dump(bad)[:40] if bad is not None else ""),
                       fi.loc(bad if bad is not None else t))
    ck.ok(rule, "finally clauses in the slice", "%d examined" % n, "")


# ---------------------------------------------------------------------------
# W10 side effects inside assert ; W11 durations measured on the wall clock ; W12 logging calls that can raise
# ---------------------------------------------------------------------------
_PURE_CALLS = ("isinstance", "issubclass", "len", "type", "callable", "hasattr", "getattr", "all", "any", "bool", "int", "float", "str",
               "repr", "id", "min", "max", "sorted", "tuple", "list", "set", "frozenset", "dict", "abs", "sum", "iter", "enumerate", "zip")
_PURE_METHODS = ("is_set", "get", "keys", "values", "items", "startswith", "endswith", "lower", "upper", "strip", "count", "index", "isdigit",
                 "is_alive", "qsize", "empty", "full", "locked", "copy", "format", "join", "split", "isidentifier")


def _w10_assert_effects(ck, sl):
    prog = ck.prog
    rule = ck.prop + ".W10"
    n = 0
    from rules import common
    for fi in sl.values():
        for a in [x for x in ast.walk(fi.node) if isinstance(x, ast.Assert)]:
            n += 1
            bad = None
            for c in [x for x in ast.walk(a.test) if isinstance(x, ast.Call)]:
                f = c.func
                if isinstance(f, ast.Name) and f.id in _PURE_CALLS:
                    continue
                if isinstance(f, ast.Attribute) and f.attr in _PURE_METHODS:
                    continue
                r = prog.resolve_call(fi, c)
                if isinstance(r, FuncInfo):
                    if not common.mutations(r) and not any(isinstance(x, (ast.Yield, ast.Global)) for x in ast.walk(r.node)):
                        continue
                    bad = (c, "it modifies state (%s)" % common.mutations(r)[0][1]) if common.mutations(r) else (c, "it is not a plain query")
                    break
                if isinstance(f, ast.Attribute) and f.attr in ("pop", "append", "remove", "add", "discard", "update", "setdefault", "clear", "extend",
                                                                "insert", "popitem", "put", "get_nowait", "put_nowait", "set", "release", "acquire",
                                                                "send", "write", "close", "start", "join", "pop_headers", "push_headers"):
                    bad = (c, "`.%s()` changes the object it is called on" % f.attr)
                    break
                for m in prog.funcs.values():
                    if m.cls is not None and isinstance(f, ast.Attribute) and m.name == f.attr and common.mutations(m):
                        bad = (c, "the package method %s it may denote modifies state" % q.fn(m))
                        break
                if bad:
                    break
            ck.require(bad is None, rule, "%s: `%s`" % (q.fn(fi), dump(a)[:50]), "side-effect free test",
                       "the assert statement evaluates `%s`, and %s: with assertions disabled (python -O, PYTHONOPTIMIZE) the whole statement "
                       "- the call included - is not executed, so the effect the surrounding code relies on silently disappears"
                       % (dump(bad[0])[:50] if bad else "", bad[1] if bad else ""), fi.loc(a))
    ck.ok(rule, "assert statements in the slice", "%d examined" % n, "")


def _w11_wall_clock(ck, sl):
    rule = ck.prop + ".W11"
    n = 0
    for fi in sl.values():
        for x in ast.walk(fi.node):
            if isinstance(x, ast.BinOp) and isinstance(x.op, (ast.Add, ast.Sub)):
                sides = [x.left, x.right]
                if any(isinstance(s_, ast.Call) and dump(s_.func) in ("time.time", "datetime.now", "datetime.datetime.now", "datetime.utcnow") for s_ in sides):
                    n += 1
                    ck.bad(rule, "%s: `%s`" % (q.fn(fi), dump(x)[:50]),
                           "a deadline / duration is computed from the wall clock (`%s`): when the system clock is stepped (NTP, manual change) "
                           "during the wait, a timeout expires at once or never - use time.monotonic() or pass the timeout to the primitive "
                           "unchanged" % dump(x)[:50], fi.loc(x))
    ck.ok(rule, "durations computed from the wall clock in the slice", "%d found" % n, "")


def _w12_identity_of_values(ck, sl):
    """`x is V` where V is a value rather than a unique object: an int / str literal, or a module-level name bound to something that
    is neither None, a class, nor a sentinel created by object().  Two equal values (socket.AF_UNIX and the int 1, "a" and a string
    built at run time) need not be the same object, so the test fails for inputs that `==` accepts."""
    prog = ck.prog
    rule = ck.prop + ".W12"
    n = 0
    for fi in sl.values():
        mod = prog.modules.get(fi.module)
        for x in ast.walk(fi.node):
            if not (isinstance(x, ast.Compare) and any(isinstance(o, (ast.Is, ast.IsNot)) for o in x.ops)):
                continue
            operands = [x.left] + list(x.comparators)
            for i, o in enumerate(x.ops):
                if not isinstance(o, (ast.Is, ast.IsNot)):
                    continue
                for v in (operands[i], operands[i + 1]):
                    n += 1
                    why = None
                    if isinstance(v, ast.Constant) and v.value is not None and v.value is not True and v.value is not False and v.value is not Ellipsis:
                        why = "the literal %r" % (v.value,)
                    elif isinstance(v, ast.Name) and mod is not None and v.id in getattr(mod, "assigns", {}) and v.id not in fi.params:
                        val = mod.assigns.get(v.id)
                        sentinel = isinstance(val, ast.Call) and dump(val.func) in ("object", "type") or \
                            (isinstance(val, ast.Call) and isinstance(val.func, ast.Name) and val.func.id[:1].isupper()) or \
                            (isinstance(val, ast.Constant) and val.value is None)
                        is_class = prog.resolve(fi.module, v) in prog.classes or str(prog.resolve(fi.module, v) or "").startswith("class:")
                        if not sentinel and not is_class and val is not None:
                            why = "the module constant %s = %s" % (v.id, dump(val)[:40])
                    if why:
                        ck.bad(rule, "%s: `%s`" % (q.fn(fi), dump(x)[:50]),
                               "an identity test against a value (%s): an equal value that is another object (an int equal to an enum member, a "
                               "string built at run time) fails the test that `==` passes, and the branch meant for it is skipped" % why, fi.loc(x))
    ck.ok(rule, "identity tests in the slice", "%d operand(s) examined" % n, "")


def _w13_private_outside_class(ck, sl):
    """`obj.__x` in a function that is not defined inside a class: the compiler mangles such names only in class bodies, so the
    access looks up the literal attribute `__x`, which the object (whose field is `_Class__x`) does not have: AttributeError on a
    read or an augmented assignment, a stray new attribute on a plain store."""
    rule = ck.prop + ".W13"
    n = 0
    for fi in sl.values():
        if fi.cls is not None or getattr(fi, "outer", None) is not None and getattr(fi.outer, "cls", None) is not None:
            continue
        for x in ast.walk(fi.node):
            if isinstance(x, ast.Attribute) and x.attr.startswith("__") and not x.attr.endswith("__"):
                n += 1
                ck.bad(rule, "%s: `%s`" % (q.fn(fi), dump(x)[:50]),
                       "`%s` is spelled as a class-private name outside any class body: it is not mangled there, so it does not reach the "
                       "field `_<Class>%s` - reading or updating it raises AttributeError (and a plain store creates an attribute nobody "
                       "reads), whatever the statement was meant to maintain is not maintained" % (dump(x)[:50], x.attr), fi.loc(x))
    ck.ok(rule, "class-private names in module-level functions of the slice", "%d found" % n, "")
