from _common import *
import json, jsonrpclib
ids = [json.loads(jsonrpclib.dumps([1], "m", rpcid=v)).get("id") for v in (0, 0.0, 5, "x")]
finish(ids == [0, 0.0, 5, "x"], "ids emitted for rpcid 0, 0.0, 5, 'x': %r" % ids)
