from _common import *
import threading
from jsonrpclib.threadpool import FutureResult
# Force the interleaving: set_callback runs between _done_event.set() and __notify()
f = FutureResult()
calls = []
orig_set = f._done_event.set
def set_then_register(data=None):
    orig_set(data)
    f.set_callback(lambda r, e, x: calls.append(x), "reg-1")
f._done_event.set = set_then_register
f.execute(lambda: 42, None, None)
finish(calls == ["reg-1"], "callback invocations for one registration: %r" % calls)
