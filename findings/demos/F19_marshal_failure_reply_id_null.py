from _common import *
import json
from jsonrpclib.SimpleJSONRPCServer import SimpleJSONRPCDispatcher
d = SimpleJSONRPCDispatcher(); d.register_function(lambda: {(1, 2): 3}, "m")
r = json.loads(d._marshaled_dispatch('{"jsonrpc":"2.0","id":5,"method":"m"}'))
finish(r.get("id") == 5, "reply to a request with id 5 whose result cannot be serialised: %r" % (r,))
