from _common import *
import io
from jsonrpclib.SimpleJSONRPCServer import SimpleJSONRPCRequestHandler
import jsonrpclib.config
N = 10 * 1024 * 1024
def run(body):
    class Srv:
        json_config = jsonrpclib.config.DEFAULT
        def _marshaled_dispatch(self, data, *a):
            self.data = data; return ""
    h = SimpleJSONRPCRequestHandler.__new__(SimpleJSONRPCRequestHandler)
    h.server = Srv(); h.path = "/"; h.rfile = io.BytesIO(body); h.wfile = io.BytesIO()
    h.headers = {"content-length": str(len(body))}
    h.is_rpc_path_valid = lambda: True
    codes = []
    h.send_response = lambda c, *a: codes.append(c)
    h.send_header = lambda *a: None; h.end_headers = lambda: None
    h.decode_request_content = lambda d: d
    h.do_POST()
    return codes, getattr(h.server, "data", None)
body = b'"' + b"a" * (N - 2) + "é".encode("utf-8") + b'"'   # the 2-byte char straddles the 10 MiB boundary
codes, data = run(body)
finish(codes == [200] and data == body.decode("utf-8"), "status %r for a body with a 2-byte char on the read boundary" % codes)
