from _common import *
from jsonrpclib import jsonclass
class Bean(object):
    def __init__(self): self.a = 1
classes = {"Bean": Bean}
desc = {"__jsonclass__": ["Bean", []], "a": 5}
bad = []
for shape in ([dict(desc)], {"k": dict(desc)}, {"__jsonclass__": ["Bean", []], "a": dict(desc)}):
    try:
        out = jsonclass.load(shape, classes)
    except Exception as ex:
        bad.append("%s: %s" % (type(ex).__name__, ex))
finish(not bad, "nested local classes load: %r" % bad)
