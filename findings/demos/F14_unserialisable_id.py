from _common import *
import json
from jsonrpclib.SimpleJSONRPCServer import SimpleJSONRPCDispatcher
d = SimpleJSONRPCDispatcher(); d.register_function(lambda: 1, "m")
try:
    out = d._marshaled_dispatch('{"jsonrpc":"2.0","id":{"__jsonclass__":["decimal.Decimal",["1"]]},"method":"m"}')
    r = json.loads(out); ok = r["error"]["code"] == -32603; msg = out
except Exception as ex:
    ok = False; msg = "raised %s: %s" % (type(ex).__name__, ex)
finish(ok, "dispatcher with an id translated to an object: " + msg)
