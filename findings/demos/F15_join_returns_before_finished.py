from _common import *
import threading, time
from jsonrpclib.threadpool import ThreadPool
p = ThreadPool(1); p.start()
gate = threading.Event()
p.enqueue(gate.wait)
time.sleep(0.3)   # worker has dequeued the task and is blocked in it: queue empty, task unfinished
r = p.join(0.2)
gate.set(); p.stop()
finish(r is False, "join(0.2) returned %r while the only task was still blocked" % r)
