from _common import *
from jsonrpclib import jsonclass
import copy
obj = {"__jsonclass__": ["decimal.Context", []], "child": {"__jsonclass__": ["no.such.module.X", []]}}
orig = copy.deepcopy(obj)
try:
    jsonclass.load(obj)
except Exception:
    pass
finish(obj == orig, "argument after failed load: %r" % (obj,))
