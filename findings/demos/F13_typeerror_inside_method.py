from _common import *
import json
from jsonrpclib.SimpleJSONRPCServer import SimpleJSONRPCDispatcher
d = SimpleJSONRPCDispatcher()
def buggy(): return 1 + "a"          # correct arity; the TypeError is raised *inside* the method
d.register_function(buggy, "buggy")
r = json.loads(d._marshaled_dispatch('{"jsonrpc":"2.0","id":1,"method":"buggy","params":[]}'))
finish(r["error"]["code"] == -32603, "TypeError raised inside a correctly called method is reported with code %s" % r["error"]["code"])
