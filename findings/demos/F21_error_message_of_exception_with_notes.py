from _common import *
import json
from jsonrpclib.SimpleJSONRPCServer import SimpleJSONRPCDispatcher
# C05: an exception raised by the method is answered -32603 with a message naming the exception type and text.  The message was
# built from fixed positions of traceback.format_exception(): since Python 3.11 the notes of an exception (add_note) are printed
# after its "Type: text" line, so with two notes both positions held notes ("Server error: note one | note two"); for a
# SyntaxError the "location" position held the source line.
d = SimpleJSONRPCDispatcher()


def noted():
    e = ValueError("boom")
    if hasattr(e, "add_note"):
        e.add_note("note one")
        e.add_note("note two")
    raise e


d.register_function(noted)
msg = json.loads(d._marshaled_dispatch(json.dumps({"jsonrpc": "2.0", "id": 1, "method": "noted"})))["error"]["message"]
finish("ValueError" in msg and "boom" in msg, "-32603 message for ValueError('boom') with two notes: %r" % msg)
