from _common import *
import json
from jsonrpclib.SimpleJSONRPCServer import SimpleJSONRPCDispatcher
d = SimpleJSONRPCDispatcher()
def boom(method, params): raise RuntimeError("custom dispatcher failed")
r1 = json.loads(d._marshaled_dispatch('{"jsonrpc":"2.0","id":7,"method":"m","params":[]}', boom))
r2 = d._marshaled_dispatch('{"jsonrpc":"2.0","method":"m","params":[]}', boom)
r3 = d._marshaled_dispatch('[{"jsonrpc":"2.0","method":"m"},{"jsonrpc":"2.0","id":0,"method":"m"}]', boom)
class Bad:
    def _serialize(self): raise RuntimeError("no")
d.register_function(lambda: Bad(), "bad")
r4 = json.loads(d._marshaled_dispatch('{"jsonrpc":"2.0","id":9,"method":"bad"}'))
ok = r1.get("id") == 7 and r2 == "" and [x.get("id") for x in json.loads(r3 or "[]")] == [0] and r4.get("id") == 9
finish(ok, "ids: call=%r notification-reply=%r batch=%r conversion-failure=%r" % (r1.get("id"), r2, r3, r4.get("id")))
