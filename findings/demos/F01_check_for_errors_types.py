from _common import *
from jsonrpclib.jsonrpc import check_for_errors, ProtocolError
bad = []
replies = [{"error": {"reason": "x"}}, {"error": 5}, {"error": True}, {"error": "bad code here"},
           {"error": {"code": "abc", "message": "m"}}, {"error": {"code": None, "message": "m"}},
           {"error": [1, 2]}, {"error": {"code": [1], "message": "m"}}, {"error": 2.5}]
for r in replies:
    r = dict(r, jsonrpc="2.0", id=1)
    try:
        check_for_errors(r); bad.append((r, "returned"))
    except ProtocolError:
        pass
    except Exception as ex:
        bad.append((r["error"], type(ex).__name__))
finish(not bad, "check_for_errors raises only ProtocolError for non-empty error members: %r" % bad)
