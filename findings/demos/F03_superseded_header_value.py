from _common import *
from jsonrpclib.jsonrpc import Transport
import jsonrpclib.config
class Conn:
    def __init__(self): self.h = []
    def putheader(self, k, v): self.h.append((k, v))
t = Transport(jsonrpclib.config.DEFAULT)
for d in ({"x-test": "a"}, {"X-Test": "b"}, {"x-test": "c"}):
    t.push_headers(d)
conn = Conn(); t.emit_additional_headers(conn)
vals = [v for k, v in conn.h if k.lower() == "x-test"]
finish(vals == ["c"], "x-test emitted as %r, expected ['c']" % vals)
