from _common import *
import threading, time, queue
from jsonrpclib.threadpool import ThreadPool
# queue_size=1: A runs, B fills the queue, enqueue(C) blocks in put() while holding the pool lock;
# the worker that finishes A then waits for that lock and cannot take B: C fails with queue.Full although the worker is idle.
p = ThreadPool(1, queue_size=1, timeout=1.5); p.start()
gate = threading.Event()
p.enqueue(gate.wait); time.sleep(0.2)          # A is running
p.enqueue(lambda: None)                         # B waits in the queue (size 1: full)
res = {}
def third():
    try:
        p.enqueue(lambda: None); res["c"] = "accepted"
    except queue.Full:
        res["c"] = "queue.Full"
t = threading.Thread(target=third); t.start(); time.sleep(0.2)
gate.set()                                      # A finishes: the worker is free to take B, which would make room for C
t.join(5)
p.stop()
finish(res.get("c") == "accepted", "third enqueue on a bounded queue while the worker became idle: %s" % res.get("c"))
