from _common import *
import threading
from jsonrpclib.SimpleJSONRPCServer import PooledJSONRPCServer
srv = PooledJSONRPCServer(("localhost", 0), logRequests=False)
t = threading.Thread(target=srv.server_close); t.daemon = True; t.start(); t.join(3)
finish(not t.is_alive(), "server_close() on a pooled server that never served %s" % ("returned" if not t.is_alive() else "blocks forever (shutdown() waits for serve_forever)"))
