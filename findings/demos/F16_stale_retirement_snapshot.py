from _common import *
import threading, time
from jsonrpclib.threadpool import ThreadPool
# Forces: worker-0 has dequeued task A but has not yet counted itself active (the dequeue happens outside the pool
# lock) while worker-1 evaluates its retirement: it sees 2 non-active workers for 1 queued task and retires.
# A waits for B (mutually dependent tasks, max_threads=2): B is never started.
p = ThreadPool(2, min_threads=0, timeout=5, logname="f16")
real = p._ThreadPool__lock
paused, resume = threading.Event(), threading.Event()
count = {}
class Lock(object):
    def __enter__(self):
        name = threading.current_thread().name
        if name.startswith("f16-"):
            count[name] = count.get(name, 0) + 1
            if name == "f16-0" and count[name] == 4:      # 4th acquisition of worker 0: `active += 1` for task A
                paused.set(); resume.wait(10)
        return real.__enter__()
    def __exit__(self, *a):
        return real.__exit__(*a)
p._ThreadPool__lock = Lock()
p.start()
g1, g2, b_ran = threading.Event(), threading.Event(), threading.Event()
p.enqueue(g1.wait); p.enqueue(g2.wait); time.sleep(0.3)    # worker 0 runs Z1, worker 1 runs Z2
fa = p.enqueue(lambda: b_ran.wait(3))                        # A depends on B
fb = p.enqueue(b_ran.set)                                    # B
g1.set(); paused.wait(5)                                     # worker 0 finished Z1, dequeued A, paused before counting itself active
g2.set(); time.sleep(0.5)                                    # worker 1 finishes Z2 and takes its retirement decision now
resume.set()
ok = fb.done() or b_ran.wait(2)
b_ran.set(); time.sleep(0.2); p.stop()
finish(bool(ok), "two mutually dependent tasks with max_threads=2: B %s" % ("ran" if ok else "was never started (worker 1 retired on a stale snapshot)"))
