from _common import *
from jsonrpclib.jsonrpc import ServerProxy
c = ServerProxy("http://localhost:1/")
before = list(c("transport").additional_headers)
try:
    with c._additional_headers({"X": "1"}):
        raise KeyError("boom")
except KeyError:
    pass
after = list(c("transport").additional_headers)
finish(before == after, "headers after exceptional exit: %r (before %r)" % (after, before))
