from _common import *
import json
from jsonrpclib.SimpleJSONRPCServer import SimpleJSONRPCDispatcher
d = SimpleJSONRPCDispatcher()
r = json.loads(d._marshaled_dispatch('{"id":1,"method":""}'))
r2 = json.loads(d._marshaled_dispatch('[{"id":1,"method":5,"params":[]}]'))[0]
ok = all("jsonrpc" not in x and set(x) == {"result", "error", "id"} and x["result"] is None for x in (r, r2))
finish(ok, "1.0-style invalid request answered with %r / %r" % (sorted(r), sorted(r2)))
