"""Shared helpers for the defect demonstrations (documentation only; no check runs these).
Usage: /venv/bin/python findings/demos/Fxx_*.py [repo_dir]  -> exit 0 if behaviour is correct, 1 if the defect shows."""
import sys, os
REPO = sys.argv[1] if len(sys.argv) > 1 else "/repo"
sys.path.insert(0, REPO)
import logging
logging.disable(logging.CRITICAL)
def finish(ok, msg):
    print(("PASS " if ok else "DEFECT ") + msg)
    sys.exit(0 if ok else 1)
