from _common import *
import functools, threading, time
from jsonrpclib.threadpool import ThreadPool
# A failing task whose callable has no __name__ (functools.partial, any callable instance): the handler that contains
# the failure in the worker evaluates method.__name__, the AttributeError escapes and the worker thread dies.
died = []
threading.excepthook = lambda a: died.append(a.exc_type.__name__)
pool = ThreadPool(2, 2)
pool.start()
time.sleep(0.2)
before = len(pool._threads)
f = pool.enqueue(functools.partial(int, "x"))
try:
    f.result(2)
except ValueError:
    pass
time.sleep(0.5)
after = len([t for t in pool._threads if t.is_alive()])
pool.stop()
finish(after == before == 2 and not died, "workers serving the queue before/after a failing partial task: %d/%d (min_threads=2), worker deaths: %r" % (before, after, died))
