from _common import *
from jsonrpclib import jsonclass
class Slotted(object):
    __slots__ = ("__priv", "pub")
    def __init__(self):
        self.__priv = 3; self.pub = 4
    def priv(self): return self.__priv
import sys; sys.modules["__main__"].Slotted = Slotted
try:
    d = jsonclass.dump(Slotted())
    o = jsonclass.load(d, {"Slotted": Slotted})
    ok = o.priv() == 3 and o.pub == 4; msg = repr(d)
except Exception as ex:
    ok = False; msg = "%s: %s" % (type(ex).__name__, ex)
finish(ok, "dump/load of a class with a name-mangled slot: " + msg)
